import warnings; warnings.filterwarnings("ignore")
import time, itertools
import highspy, numpy as np, networkx as nx, z3
import flowpaths as fp
from flowpaths.utils import solverwrapper as sw

SNAP=[]
_orig = highspy.Highs.optimize
def patched(self,*a,**k):
    SNAP.append(self.getLp())
    return _orig(self,*a,**k)
sw.HighsCustom.optimize = patched

def lp_to_z3(lp, tag=""):
    n=lp.num_col_; m=lp.num_row_
    xs=[]
    cons=[]
    INF=highspy.kHighsInf
    for j in range(n):
        isint = (len(lp.integrality_)>j and lp.integrality_[j]==highspy.HighsVarType.kInteger)
        v = z3.Int(f"c{j}{tag}") if isint else z3.Real(f"c{j}{tag}")
        xs.append(v)
        lo,up=lp.col_lower_[j],lp.col_upper_[j]
        if lo>-INF: cons.append(v>= (int(lo) if float(lo).is_integer() else z3.RealVal(repr(lo))))
        if up<INF: cons.append(v<= (int(up) if float(up).is_integer() else z3.RealVal(repr(up))))
    A=lp.a_matrix_
    assert A.format_==highspy.MatrixFormat.kRowwise, A.format_
    st=list(A.start_); idx=list(A.index_); val=list(A.value_)
    for i in range(m):
        terms=[]
        for p in range(st[i], st[i+1] if i+1<len(st) else len(idx)):
            c=val[p]
            cc = int(c) if float(c).is_integer() else z3.RealVal(repr(c))
            terms.append(cc*xs[idx[p]])
        e = z3.Sum(terms) if terms else z3.IntVal(0)
        lo,up=lp.row_lower_[i],lp.row_upper_[i]
        if lo>-INF: cons.append(e>=(int(lo) if float(lo).is_integer() else z3.RealVal(repr(lo))))
        if up<INF: cons.append(e<=(int(up) if float(up).is_integer() else z3.RealVal(repr(up))))
    return xs,cons

G=nx.DiGraph()
G.add_edge("s","a",flow=3);G.add_edge("a","t",flow=3);G.add_edge("s","b",flow=5);G.add_edge("b","t",flow=7);G.add_edge("a","b",flow=2); G.add_edge("s","a2",flow=2); G.add_edge("a2","a",flow=2)
# make conserving: a in = 3+2=5 out: 3+2
m=fp.kFlowDecomp(G,"flow",k=3,weight_type=int,optimization_options={"optimize_with_greedy":False})
m.solve(); print(m.is_solved(), m.get_solution())
lp=SNAP[-1]
t=time.time(); xs,cons=lp_to_z3(lp); print("cols",len(xs),"cons",len(cons),"translate",time.time()-t)
s=z3.Solver(); s.add(cons)
t=time.time(); print(s.check(), time.time()-t)
# C02-ish: exists assignment where sum_i w_i*x_ei != f_e
ev=m.edge_vars; wv=m.path_weights_vars
viol=[]
for (u,v,d) in m.G.edges(data=True):
    if (u,v) in m.edges_to_ignore: continue
    tot=z3.Sum([z3.If(xs[ev[(u,v,i)].index]==1, xs[wv[i].index], 0) for i in range(m.k)])
    viol.append(tot!=d["flow"])
s.push(); s.add(z3.Or(viol)); t=time.time(); print("C02 query:", s.check(), time.time()-t); s.pop()
# C01-ish: layer not a path: exists node (non source) with out-degree sum >1 in a layer or used edges not forming path from source
viol=[]
for i in range(m.k):
    for v in m.G.nodes():
        outs=z3.Sum([xs[ev[(v,w,i)].index] for w in m.G.successors(v)]) if list(m.G.successors(v)) else z3.IntVal(0)
        viol.append(outs>1)
s.push(); s.add(z3.Or(viol)); t=time.time(); print("C01 outdeg query:", s.check(), time.time()-t); s.pop()

# cycles
H=nx.DiGraph()
H.add_edge("s","a",flow=1);H.add_edge("a","b",flow=3);H.add_edge("b","a",flow=2);H.add_edge("b","t",flow=1); H.add_edge("b","b",flow=1)
mc=fp.kFlowDecompCycles(H,"flow",k=2,weight_type=int)
mc.solve(); print(mc.is_solved(), mc.get_solution())
lp=SNAP[-1]
t=time.time(); xs,cons=lp_to_z3(lp); print("cols",len(xs),"cons",len(cons),"translate",time.time()-t)
s=z3.Solver(); s.add(cons)
t=time.time(); print(s.check(), time.time()-t)
ev=mc.edge_vars; wv=mc.path_weights_vars
viol=[]
for (u,v,d) in mc.G.edges(data=True):
    if (u,v) in mc.edges_to_ignore: continue
    tot=z3.Sum([xs[ev[(u,v,i)].index]*xs[wv[i].index] for i in range(mc.k)])
    viol.append(tot!=d["flow"])
s.push(); s.add(z3.Or(viol)); t=time.time(); print("C02 cyc query:", s.check(), time.time()-t); s.pop()
