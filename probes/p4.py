import warnings; warnings.filterwarnings("ignore")
import os
from typing import List
import highspy, networkx as nx
import flowpaths as fp
from flowpaths.utils import solverwrapper as sw

G=nx.DiGraph()
G.add_edge("s","a",flow=3);G.add_edge("a","t",flow=3);G.add_edge("s","b",flow=5);G.add_edge("b","t",flow=7);G.add_edge("a","b",flow=2); G.add_edge("s","a2",flow=2); G.add_edge("a2","a",flow=2)
K=int(os.environ.get("K","3"))
_m=fp.kFlowDecomp(G,"flow",k=K,weight_type=int,optimization_options={"optimize_with_greedy":False,"optimize_with_flow_safe_paths":False, "optimize_with_safe_paths":False})
_m.solver._apply_pending_bound_updates()
_lp=_m.solver.solver.getLp()
_n=_lp.num_col_
_A=_lp.a_matrix_
_st=list(_A.start_); _idx=list(_A.index_); _val=[int(v) for v in _A.value_]
_rows=[]
INF=highspy.kHighsInf
for i in range(_lp.num_row_):
    terms=[(_idx[p],_val[p]) for p in range(_st[i],_st[i+1])]
    lo=_lp.row_lower_[i]; up=_lp.row_upper_[i]
    _rows.append((terms, None if lo<=-INF else int(lo), None if up>=INF else int(up)))
_lb=[int(x) for x in _lp.col_lower_]; _ub=[int(x) for x in _lp.col_upper_]
if os.environ.get("BUG"):
    # drop flow conservation rows for layer 0 (rows named 10c_*_i=0)
    names=list(_lp.row_names_)
    _rows=[r for r,nm in zip(_rows,names) if not (nm.startswith("10c") and nm.endswith("i=0"))]

def _feasible(vals: List[int]) -> bool:
    for j in range(_n):
        if not (_lb[j] <= vals[j] <= _ub[j]): return False
    for terms,lo,up in _rows:
        e=0
        for j,c in terms: e+=c*vals[j]
        if lo is not None and e<lo: return False
        if up is not None and e>up: return False
    return True

def _ok(sol) -> bool:
    paths=sol["paths"]; ws=sol["weights"]
    if len(paths)!=K or len(ws)!=K: return False
    exp={e:0 for e in G.edges()}
    for p,w in zip(paths,ws):
        if w<0: return False
        if len(p)<1: return False
        if G.in_degree(p[0])!=0 or G.out_degree(p[-1])!=0: return False
        for u,v in zip(p[:-1],p[1:]):
            if (u,v) not in exp: return False
            exp[(u,v)]+=w
    for (u,v) in G.edges():
        if exp[(u,v)]!=G[u][v]["flow"]: return False
    return True

def check_decode(vals: List[int]) -> bool:
    """
    pre: len(vals) == _n
    pre: _feasible(vals)
    post: _
    """
    _m.solver.solver.allVariableValues = lambda: vals
    _m._is_solved=True; _m._solution=None; _m.edge_vars_sol={}
    _m.get_solution()
    sol=_m._solution
    return _ok(sol)
