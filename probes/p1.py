import warnings; warnings.filterwarnings("ignore")
import highspy, numpy as np, networkx as nx
import flowpaths as fp
from flowpaths.utils import solverwrapper as sw
print([m for m in dir(highspy.Highs) if m in ("optimize","run","solve","getLp","getCols","changeColsLower","allVariableValues","getModelStatus","getSolution","setSolution","getObjectiveValue","minimize","maximize")])
snap=[]
orig = sw.HighsCustom.optimize if hasattr(sw.HighsCustom,"optimize") else None
print("optimize attr:", orig)
def patched(self,*a,**k):
    lp=self.getLp()
    snap.append(lp)
    return orig(self,*a,**k)
sw.HighsCustom.optimize=patched
G=nx.DiGraph()
G.add_edge("s","a",flow=3);G.add_edge("a","t",flow=3);G.add_edge("s","b",flow=5);G.add_edge("b","t",flow=5);G.add_edge("a","b",flow=0)
m=fp.kFlowDecomp(G,"flow",k=2,optimization_options={"optimize_with_greedy":False})
m.solve()
lp=snap[0]
print(lp.num_col_, lp.num_row_, lp.col_names_[:5], lp.row_names_[:5])
print(list(lp.col_lower_)[:5], list(lp.col_upper_)[:5], [str(x) for x in lp.integrality_][:5])
print(lp.a_matrix_.format_, list(lp.a_matrix_.start_)[:5], list(lp.a_matrix_.index_)[:5], list(lp.a_matrix_.value_)[:5])
print(list(lp.row_lower_)[:5], list(lp.row_upper_)[:5], lp.sense_, lp.offset_, list(lp.col_cost_)[:5])
print(m.get_solution())
