import warnings; warnings.filterwarnings("ignore")
import time, z3, highspy, networkx as nx
from fractions import Fraction
import flowpaths as fp
from flowpaths.utils import solverwrapper as sw
SNAP=[]
_orig=highspy.Highs.optimize
def patched(self,*a,**k):
    SNAP.append(self.getLp()); return _orig(self,*a,**k)
sw.HighsCustom.optimize=patched
def q(x):
    fr=Fraction(float(x)); return z3.RatVal(fr.numerator, fr.denominator) if fr.denominator!=1 else z3.IntVal(fr.numerator)
def lp_to_z3(lp):
    INF=highspy.kHighsInf
    xs=[]; cons=[]
    for j in range(lp.num_col_):
        isint=(len(lp.integrality_)>j and lp.integrality_[j]==highspy.HighsVarType.kInteger)
        v=z3.Int(f"c{j}") if isint else z3.Real(f"c{j}")
        xs.append(v)
        if lp.col_lower_[j]>-INF: cons.append(v>=q(lp.col_lower_[j]))
        if lp.col_upper_[j]<INF: cons.append(v<=q(lp.col_upper_[j]))
    A=lp.a_matrix_; st=list(A.start_); idx=list(A.index_); val=list(A.value_)
    for i in range(lp.num_row_):
        e=z3.Sum([q(val[p])*xs[idx[p]] for p in range(st[i],st[i+1])]) if st[i+1]>st[i] else z3.IntVal(0)
        if lp.row_lower_[i]>-INF: cons.append(e>=q(lp.row_lower_[i]))
        if lp.row_upper_[i]<INF: cons.append(e<=q(lp.row_upper_[i]))
    obj=z3.Sum([q(c)*x for c,x in zip(lp.col_cost_,xs) if c!=0]) + q(lp.offset_)
    return xs,cons,obj
def study(name, m):
    ok=m.solve(); lp=SNAP[-1]
    if not ok:
        xs,cons,obj=lp_to_z3(lp); s=z3.Solver(); s.add(cons); t=time.time(); print(name,'unsolved; z3 feasibility:',s.check(), round(time.time()-t,2)); return
    o=m.solver.get_objective_value()
    xs,cons,obj=lp_to_z3(lp)
    s=z3.Solver(); s.add(cons)
    t=time.time(); r1=s.check(obj<=q(round(o))); t1=time.time()-t
    t=time.time(); r2=s.check(obj<q(round(o))); t2=time.time()-t
    print(name,"cols",lp.num_col_,"rows",lp.num_row_,"highs obj",o,"| obj<=o:",r1,round(t1,2),"| obj<o:",r2,round(t2,2))
H=nx.DiGraph()
for (u,v,f) in [("s","a",2),("a","b",5),("b","a",3),("b","t",1),("b","b",2),("a","t",2)]: H.add_edge(u,v,flow=f)
for k in (1,2):
    study(f"LAEcyc k={k}", fp.kLeastAbsErrorsCycles(H,"flow",k=k,weight_type=int))
    study(f"MPEcyc k={k}", fp.kMinPathErrorCycles(H,"flow",k=k,weight_type=int))
D=nx.DiGraph()
for (u,v,f) in [("s","a",3),("a","t",4),("s","b",5),("b","t",6),("a","b",2),("s","t",1)]: D.add_edge(u,v,flow=f)
for k in (2,3):
    study(f"LAE k={k}", fp.kLeastAbsErrors(D,"flow",k=k,weight_type=int))
    study(f"MPE k={k}", fp.kMinPathError(D,"flow",k=k,weight_type=int))
    study(f"LAEfloat k={k}", fp.kLeastAbsErrors(D,"flow",k=k,weight_type=float))
