import warnings; warnings.filterwarnings("ignore")
import os
from typing import List
import highspy, networkx as nx
import flowpaths as fp

G=nx.DiGraph()
G.add_edge("s","a",flow=1);G.add_edge("a","b",flow=3);G.add_edge("b","a",flow=2);G.add_edge("b","t",flow=1)
K=int(os.environ.get("K","1"))
def mk():
    return fp.kFlowDecompCycles(G,"flow",k=K,weight_type=int,optimization_options={"optimize_with_safe_sequences":False})
_m1=mk(); _m1.solver._apply_pending_bound_updates()
_lp=_m1.solver.solver.getLp()
_m=mk()
_n=_lp.num_col_
_A=_lp.a_matrix_
_st=list(_A.start_); _idx=list(_A.index_); _val=[int(v) for v in _A.value_]
INF=highspy.kHighsInf
_rows=[]
for i in range(_lp.num_row_):
    terms=[(_idx[p],_val[p]) for p in range(_st[i],_st[i+1])]
    lo=_lp.row_lower_[i]; up=_lp.row_upper_[i]
    _rows.append((terms, None if lo<=-INF else int(lo), None if up>=INF else int(up)))
_lb=[int(x) for x in _lp.col_lower_]; _ub=[int(x) for x in _lp.col_upper_]
print("cols",_n,"rows",len(_rows))
def _feasible(vals: List[int]) -> bool:
    for j in range(_n):
        if not (_lb[j] <= vals[j] <= _ub[j]): return False
    for terms,lo,up in _rows:
        e=0
        for j,c in terms: e+=c*vals[j]
        if lo is not None and e<lo: return False
        if up is not None and e>up: return False
    return True
def _ok(sol) -> bool:
    walks=sol["walks"]; ws=sol["weights"]
    exp={e:0 for e in G.edges()}
    for p,w in zip(walks,ws):
        if w<0 or len(p)<1: return False
        if G.in_degree(p[0])!=0 or G.out_degree(p[-1])!=0: return False
        for u,v in zip(p[:-1],p[1:]):
            if (u,v) not in exp: return False
            exp[(u,v)]+=w
    return all(exp[(u,v)]==G[u][v]["flow"] for (u,v) in G.edges())
def check_decode(vals: List[int]) -> bool:
    """
    pre: len(vals) == _n
    pre: _feasible(vals)
    post: _
    """
    _m.solver.solver.allVariableValues = lambda: vals
    _m.set_solved(); _m._solution=None; _m.edge_vars_sol={}
    sol=_m.get_solution(remove_empty_walks=False)
    return _ok(sol)
