import warnings; warnings.filterwarnings("ignore")
import logging; logging.disable(logging.CRITICAL)
from typing import List
import flowpaths as fp
OPT, INF, TL, UNK = 0, 1, 2, 3
_NAMES={OPT:"kOptimal", INF:"kInfeasible", TL:"kTimeLimit", UNK:"kInterrupt"}
class _StubSolver:
    def __init__(self, code, k): self.code=code; self.k=k
    def optimize(self): pass
    def get_model_status(self): return _NAMES[self.code]
    def get_values(self, vars): return {i:1 for i in range(self.k)}
_S={"sched":[], "calls":[]}
def _create(self, k):
    j=len(_S["calls"]); code=_S["sched"][j] if j<len(_S["sched"]) else INF
    _S["calls"].append((k,code))
    self.solver=_StubSolver(code,k); self.genset_vars=None
fp.MinGenSet._create_solver=_create
def check_search(sched: List[int]) -> bool:
    """
    pre: len(sched) == 4
    pre: all(0 <= s <= 3 for s in sched)
    post: _
    """
    _S["sched"]=sched; _S["calls"]=[]
    m=fp.MinGenSet([3,5,8,11,2], total=16, weight_type=int)
    ok=m.solve()
    exp=False
    for (k,code) in _S["calls"]:
        if code==INF: continue
        exp=(code==OPT); break
    # calls after the deciding one must not happen
    return ok==exp and bool(m.is_solved())==exp
check_search([1,0,0,0])
