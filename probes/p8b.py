import warnings; warnings.filterwarnings("ignore")
from typing import List, Tuple
import flowpaths.utils.graphutils as gu
import flowpaths.stdigraph as sdg
from crosshair.tracers import NoTracing
from crosshair.core import deep_realize

class _StubSt:
    def __init__(self, G, *a, **k): self.G=G
    def get_width(self, *a, **k): return -1
sdg.stDiGraph=_StubSt

def check_parse(lines: List[str]) -> bool:
    """
    pre: 1 <= len(lines) <= 2
    pre: all(len(l) <= 6 for l in lines)
    raises: ValueError
    post: _
    """
    block=["# g\n","3\n"]+lines
    G=gu.read_graph(block)
    # oracle: every non-blank, non-comment line must be exactly 3 whitespace-separated tokens with float weight
    want={}
    for l in lines:
        if not l.strip() or l.lstrip().startswith("#"): continue
        t=l.split()
        if len(t)!=3: return False   # should have raised
        want[(t[0],t[1])]=float(t[2])
    got={(u,v):d["flow"] for u,v,d in G.edges(data=True)}
    return got==want
check_parse(["a b 1\n"])
