import warnings; warnings.filterwarnings("ignore")
import os
from typing import List
import hx_wrap
import highspy, networkx as nx
import flowpaths as fp
from flowpaths.utils import solverwrapper as sw

_real_opt = highspy.Highs.optimize
_real_vals = highspy.Highs.allVariableValues
STATE={"mode":"dry","calls":[], "target":None, "vals":None, "bad":False}

def lp_rows(lp):
    INF=highspy.kHighsInf
    A=lp.a_matrix_; st=list(A.start_); idx=list(A.index_); val=[int(v) for v in A.value_]
    rows=[]
    for i in range(lp.num_row_):
        terms=[(idx[p],val[p]) for p in range(st[i],st[i+1])]
        lo=lp.row_lower_[i]; up=lp.row_upper_[i]
        rows.append((terms, None if lo<=-INF else int(lo), None if up>=INF else int(up)))
    return rows,[int(x) for x in lp.col_lower_],[int(x) for x in lp.col_upper_]

def feasible(vals, rows, lb, ub):
    if len(vals)!=len(lb): return False
    for j in range(len(lb)):
        if not (lb[j] <= vals[j] <= ub[j]): return False
    for terms,lo,up in rows:
        e=0
        for j,c in terms: e+=c*vals[j]
        if lo is not None and e<lo: return False
        if up is not None and e>up: return False
    return True

def _opt(self,*a,**k):
    lp0=self.getLp(); pre=lp_rows(lp0)
    r=_real_opt(self,*a,**k)
    ci=len(STATE["calls"])
    STATE["calls"].append((self.getModelStatus().name, self.getLp().num_col_))
    if STATE["mode"]=="sym" and ci==STATE["target"]:
        rows,lb,ub=pre
        if not feasible(STATE["vals"],rows,lb,ub):
            raise _Assume()
        v=STATE["vals"]
        self.allVariableValues = lambda: v
    return r
sw.HighsCustom.optimize=_opt

class _Assume(Exception): pass
def build():
    G=nx.DiGraph()
    G.add_edge("s","a",flow=3);G.add_edge("a","t",flow=3);G.add_edge("s","b",flow=5);G.add_edge("b","t",flow=7);G.add_edge("a","b",flow=2); G.add_edge("s","a2",flow=2); G.add_edge("a2","a",flow=2)
    return G

def run(G):
    m=fp.MinFlowDecomp(G,"flow",weight_type=int,optimization_options={"optimize_with_greedy":False,"optimize_with_flow_safe_paths":False,"optimize_with_safe_paths":False})
    ok=m.solve()
    return m,ok

# dry run
STATE["mode"]="dry"; STATE["calls"]=[]
_m,_ok=run(build())
_calls=list(STATE["calls"])
_target=max(i for i,(st,n) in enumerate(_calls) if st=="kOptimal")
_n=_calls[_target][1]
print("dry:",_ok,_calls,_target,_n, _m.get_solution())

def _check(G,sol):
    paths=sol["paths"]; ws=sol["weights"]
    exp={e:0 for e in G.edges()}
    for p,w in zip(paths,ws):
        if w<0 or len(p)<1: return False
        if G.in_degree(p[0])!=0 or G.out_degree(p[-1])!=0: return False
        for u,v in zip(p[:-1],p[1:]):
            if (u,v) not in exp: return False
            exp[(u,v)]+=w
    return all(exp[(u,v)]==G[u][v]["flow"] for (u,v) in G.edges())

def check_wrapper(vals: List[int]) -> bool:
    """
    pre: len(vals) == _n
    post: _
    """
    STATE["mode"]="sym"; STATE["calls"]=[]; STATE["target"]=_target; STATE["vals"]=vals; STATE["bad"]=False
    G=build()
    try:
        m,ok=run(G)
    except _Assume:
        return True
    if not ok: return False
    return _check(G,m.get_solution())
