import highspy, functools
from crosshair.tracers import NoTracing
core=highspy.Highs.__mro__[1]
def _mk(orig):
    def w(self,*a,**k):
        with NoTracing():
            return orig(self,*a,**k)
    return w
for n in dir(core):
    o=getattr(core,n)
    if type(o).__name__=="instancemethod" and (not n.startswith("__") or n=="__init__") :
        try: setattr(core,n,_mk(o))
        except Exception as e: print("skip",n,e)
import crosshair.condition_parser as _cp
_orig_gcc=_cp.CompositeConditionParser.get_class_conditions
def _safe_gcc(self, cls):
    try:
        return _orig_gcc(self, cls)
    except TypeError:
        ret=_cp.ClassConditions([], {})
        self.class_cache[cls]=ret
        return ret
_cp.CompositeConditionParser.get_class_conditions=_safe_gcc
