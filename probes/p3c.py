import warnings; warnings.filterwarnings("ignore")
import os
from typing import List
from flowpaths.abstractwalkmodeldigraph import AbstractWalkModelDiGraph

class _G:
    source="S"; sink="T"
    _nodes=["S","a","b","c","T"]
    _edges=[("S","a"),("a","b"),("a","T"),("b","c"),("b","a"),("c","b"),("c","c")]
    def nodes(self): return list(self._nodes)
    def edges(self): return list(self._edges)

class _M(AbstractWalkModelDiGraph):
    def __init__(self): pass
    def get_solution(self): pass
    def get_lowerbound_k(self): pass
    def is_valid_solution(self): pass
    def get_objective_value(self): pass

if os.environ.get("BUG"):
    def _buggy(self, graph, start_vertex, stack):
        closed_walk=[start_vertex]; cur=start_vertex
        while graph[cur]:
            nxt=graph[cur].pop()
            closed_walk.append(nxt); cur=nxt
            if cur==start_vertex: break
        return closed_walk
    _M._build_closed_walk_from_vertex=_buggy

def _connected(m: List[int]) -> bool:
    E=_G._edges
    reach={"S"}
    for _ in range(5):
        for (u,v),x in zip(E,m):
            if x>0 and u in reach: reach.add(v)
    for (u,v),x in zip(E,m):
        if x>0 and u not in reach: return False
    return True

def _balanced(m: List[int]) -> bool:
    E=_G._edges
    for n in ["a","b","c"]:
        i=sum(x for (u,v),x in zip(E,m) if v==n); o=sum(x for (u,v),x in zip(E,m) if u==n)
        if i!=o: return False
    return sum(x for (u,v),x in zip(E,m) if u=="S")==1

def check_reconstruct(m: List[int]) -> bool:
    """
    pre: len(m) == 7
    pre: all(0 <= x <= 2 for x in m)
    pre: _balanced(m)
    pre: _connected(m)
    post: _
    """
    M=_M(); M.G=_G(); M.k=1
    M.edge_vars_sol={(u,v,0): m[i] for i,(u,v) in enumerate(_G._edges)}
    w=M.get_solution_walks()[0]
    full=["S"]+w+["T"]
    cnt={e:0 for e in _G._edges}
    for u,v in zip(full[:-1],full[1:]):
        if (u,v) not in cnt: return False
        cnt[(u,v)]+=1
    return all(cnt[e]==m[i] for i,e in enumerate(_G._edges))
