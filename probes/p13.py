import time, z3, networkx as nx
def spec_walks_seq(G, S, T, f, k, L, wmax):
    nodes=list(G.nodes()); idx={v:i for i,v in enumerate(nodes)}
    E=[(idx[u],idx[v]) for u,v in G.edges()]
    s=z3.Solver()
    SINK=len(nodes)   # virtual absorbing sink
    W=[z3.Int(f"w{i}") for i in range(k)]
    cnt={}
    for i in range(k):
        s.add(W[i]>=0, W[i]<=wmax)
        V=[z3.Int(f"v{i}_{j}") for j in range(L+1)]
        s.add(z3.Or([V[0]==idx[x] for x in S]))
        for j in range(L):
            steps=[z3.And(V[j]==a, V[j+1]==b) for (a,b) in E]
            end=z3.And(z3.Or([V[j]==idx[x] for x in T]), V[j+1]==SINK)
            stay=z3.And(V[j]==SINK, V[j+1]==SINK)
            s.add(z3.Or(end,stay,*steps))
        s.add(V[L]==SINK)
        for (a,b) in E:
            cnt[(i,a,b)]=z3.Sum([z3.If(z3.And(V[j]==a,V[j+1]==b),1,0) for j in range(L)])
    for (u,v) in G.edges():
        a,b=idx[u],idx[v]
        s.add(z3.Sum([cnt[(i,a,b)]*W[i] for i in range(k)])==f[(u,v)])
    return s
H=nx.DiGraph()
fl={("s","a"):1,("a","b"):3,("b","a"):2,("b","t"):1,("b","b"):1}
for e in fl: H.add_edge(*e)
for k in (1,2):
    t=time.time(); s=spec_walks_seq(H,["s"],["t"],fl,k,L=10,wmax=3); r=s.check(); print("k",k,r,round(time.time()-t,2))
fl2=dict(fl); fl2[("b","b")]=2  # now needs 2 walks? b: in 3+2=5, out 2+1+2=5 ok; weights: s->a 1 means total weight 1 -> single walk weight 1 mult(b,b)=2 fine
for e in fl2: H[e[0]][e[1]]["f"]=fl2[e]
t=time.time(); s=spec_walks_seq(H,["s"],["t"],fl2,1,L=11,wmax=3); print(s.check(), round(time.time()-t,2))
# infeasible one: s->a 2, a->t 2, plus cycle a->b 1, b->a 1 : k=1 needs weight dividing... w=1: mult s->a 2 impossible(source edge once) w=2: a->b mult 0.5 -> infeasible for k=1
J=nx.DiGraph(); fj={("s","a"):2,("a","t"):2,("a","b"):1,("b","a"):1}
for e in fj: J.add_edge(*e)
for k in (1,2):
    t=time.time(); s=spec_walks_seq(J,["s"],["t"],fj,k,L=8,wmax=2); print("J k",k,s.check(), round(time.time()-t,2))
