import warnings; warnings.filterwarnings("ignore")
import time, itertools, z3, networkx as nx
from flowpaths.stdigraph import stDiGraph
from flowpaths.utils import safetypathcoverscycles as spc

def avoid_walk_exists(G, e, S):
    """BMC: exists source->sink walk through edge e that does NOT contain S as a subsequence."""
    nodes=list(G.nodes()); idx={v:i for i,v in enumerate(nodes)}
    E=[(idx[u],idx[v]) for u,v in G.edges()]
    L=len(nodes)*(len(S)+1)*2+1
    s=z3.Solver()
    V=[z3.Int(f"v{j}") for j in range(L+1)]
    M=[z3.Int(f"m{j}") for j in range(L+1)]   # matched prefix length
    Q=[z3.Bool(f"q{j}") for j in range(L+1)]  # seen e
    src,snk=idx[G.source],idx[G.sink]
    s.add(V[0]==src, M[0]==0, z3.Not(Q[0]))
    Sx=[(idx[u],idx[v]) for u,v in S]
    for j in range(L):
        stay=z3.And(V[j]==snk, V[j+1]==snk, M[j+1]==M[j], Q[j+1]==Q[j])
        steps=[]
        for (a,b) in E:
            # next matched
            nm=M[j]
            for p,(x,y) in enumerate(Sx):
                if (x,y)==(a,b):
                    nm=z3.If(M[j]==p, p+1, nm)
            steps.append(z3.And(V[j]==a, V[j+1]==b, M[j+1]==nm, Q[j+1]==z3.Or(Q[j], (a,b)==(idx[e[0]],idx[e[1]]))))
        s.add(z3.Or(stay,*steps))
    s.add(V[L]==snk, Q[L], M[L]<len(S))
    return s.check()

G=nx.DiGraph()
G.add_edges_from([("s","a"),("a","b"),("b","a"),("b","c"),("c","t"),("a","c"),("c","c")])
st=stDiGraph(G)
X=set(st.edges())-set(st.source_sink_edges)
seqs=spc.maximal_safe_sequences_via_dominators(st,X)
print(seqs)
t=time.time()
for S in seqs:
    res=[str(avoid_walk_exists(st,e,S)) for e in X]
    print(S, "safe" if "unsat" in res else "UNSAFE", res)
print("time",time.time()-t)
