import warnings; warnings.filterwarnings("ignore")
from typing import List
import networkx as nx
import flowpaths as fp
import flowpaths.minflowdecomp as mfd
import flowpaths.utils.solverwrapper as sw
from crosshair.tracers import NoTracing

import logging; logging.disable(logging.CRITICAL)
OPT, INF, TL, UNK = 0, 1, 2, 3
_NAMES={OPT:"kOptimal", INF:"kInfeasible", TL:"kTimeLimit", UNK:"kInterrupt"}
_SCHED=[]; _CALLS=[]

class _StubSolver:
    def __init__(self, code): self.code=code
    def get_model_status(self): return _NAMES[self.code]

class _StubK:
    def __init__(self, G=None, flow_attr=None, k=None, **kw):
        j=len(_CALLS)
        code=_SCHED[j] if j < len(_SCHED) else INF
        _CALLS.append((k,code))
        self.k=k; self.code=code
        self.solver=_StubSolver(code)
        self.solve_statistics={}
    def solve(self): return self.code==OPT
    def is_solved(self): return self.code==OPT
    def get_solution(self, remove_empty_paths=False):
        if self.code!=OPT: raise Exception("not solved")
        return {"paths":[["a","b"]]*self.k, "weights":[1]*self.k}
mfd.kflowdecomp.kFlowDecomp=_StubK

G=nx.DiGraph()
for (u,v) in [("a","b"),("b","c"),("a","c"),("c","d"),("b","d")]: G.add_edge(u,v,flow=1)
G["a"]["b"]["flow"]=2; G["c"]["d"]["flow"]=2  # a->b 2 = b->c1 + b->d1 ; c: in 1+1=2 out 2
def check_search(sched: List[int]) -> bool:
    """
    pre: len(sched) == 5
    pre: all(0 <= s <= 3 for s in sched)
    post: _
    """
    global _SCHED,_CALLS
    _SCHED=sched; _CALLS=[]
    with NoTracing():
        m=fp.MinFlowDecomp(G,"flow",weight_type=int)
        m.get_lowerbound_k()
    ok=m.solve()
    # expected: first non-INF outcome decides
    exp=False
    for (k,code) in _CALLS:
        if code==INF: continue
        exp=(code==OPT); break
    if ok!=exp: return False
    if ok!=bool(m.is_solved()): return False
    if not ok:
        try:
            m.get_solution(); return False
        except Exception:
            return True
    return len(m.get_solution()["paths"])==_CALLS[-1][0]
check_search([1,1,0,0,0])
