import warnings; warnings.filterwarnings("ignore")
from typing import List
import networkx as nx
import flowpaths as fp
from flowpaths.stdag import stDAG

# fixed topology: diamond with shortcut; flows = superposition of symbolic path weights
_PATHS=[["s","a","t"],["s","b","t"],["s","a","b","t"]]
_EDGES=[("s","a"),("a","t"),("s","b"),("b","t"),("a","b")]

def check_greedy(w: List[int]) -> bool:
    """
    pre: len(w) == 3
    pre: all(0 <= x <= 4 for x in w)
    pre: w[0] + w[1] + w[2] > 0
    post: _
    """
    f={e:0 for e in _EDGES}
    for p,x in zip(_PATHS,w):
        for e in zip(p[:-1],p[1:]): f[e]+=x
    G=nx.DiGraph()
    for (u,v) in _EDGES: G.add_edge(u,v,flow=f[(u,v)])
    st=stDAG(G)
    paths,weights=st.decompose_using_max_bottleneck("flow")
    exp={e:0 for e in _EDGES}
    for p,x in zip(paths,weights):
        if x<=0: return False
        if p[0]!="s" or p[-1]!="t": return False
        for e in zip(p[:-1],p[1:]):
            if e not in exp: return False
            exp[e]+=x
    return all(exp[e]==f[e] for e in _EDGES)
check_greedy([1,2,1])  # warm-up: forces networkx lazy decorators to compile outside tracing
