import warnings; warnings.filterwarnings("ignore")
import highspy, numpy as np
from flowpaths.utils import solverwrapper as sw
w=sw.SolverWrapper()
print("has changeColsLower:", hasattr(w.solver,"changeColsLower"))
xs=w.add_variables([0,1,2],"x",lb=0,ub=[5,6,7],var_type="integer")
w.queue_set_var_lower_bound(xs[1],2)
w.queue_fix_variable(xs[2],3)
w.set_objective(w.quicksum(xs[i] for i in range(3)),sense="minimize")
w._apply_pending_bound_updates()
lp=w.solver.getLp()
print(list(lp.col_lower_), list(lp.col_upper_))
r=w.solver.getCols(2, np.array([0,1],dtype=np.int32))
print(r)
