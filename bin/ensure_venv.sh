#!/bin/bash
# Create (idempotently) the overlay venv /verif/.venv = /venv's site-packages + crosshair-tool, z3-solver, jsonschema
# from the offline wheelhouse. Safe to call concurrently (lock) and from every check.
set -e
HERE="$(cd "$(dirname "$0")/.." && pwd)"
V="${FPVERIF_VENV:-$HERE/.venv}"
STAMP=$V/.ok
if [ -f "$STAMP" ] && "$V/bin/python" -c "import z3, crosshair, highspy, networkx" 2>/dev/null; then exit 0; fi
exec 9>"$V.lock"
flock 9
if [ -f "$STAMP" ] && "$V/bin/python" -c "import z3, crosshair, highspy, networkx" 2>/dev/null; then exit 0; fi
rm -rf "$V"
/venv/bin/python -m venv "$V"
SP=$("$V/bin/python" -c "import sysconfig;print(sysconfig.get_paths()['purelib'])")
echo "import site; site.addsitedir('/venv/lib/python3.12/site-packages')" > "$SP/_base.pth"
PIP_NO_INDEX=1 "$V/bin/pip" install -q --no-index --find-links /opt/veriftools/wheels crosshair-tool z3-solver jsonschema cvc5 >/dev/null
"$V/bin/python" -c "import z3, crosshair, highspy, networkx, flowpaths"
touch "$STAMP"
