#!/bin/bash
# usage: bin/seeds.sh <ID> [seeds...]  -- run the quick tier of one check under several seeds
id=$1; shift
for s in "${@:-0 1 2 3}"; do for sd in $s; do VERIF_SEED=$sd ./check $id --tier quick 2>&1 | grep -E "^\[|VIOLATION|HARNESS|KNOWN|signature" | cut -c1-330; done; done
