#!/bin/bash
# usage: bin/try_seed.sh <patch.diff> <ID> [<ID>...]   -- apply a seeded change to /repo, run the quick checks, undo it
patch=$(realpath "$1"); shift
git -C /repo apply "$patch" || { echo "patch does not apply"; exit 3; }
trap 'git -C /repo checkout -- .' EXIT
for id in "$@"; do
  out=$(VERIF_SEED=${VERIF_SEED:-0} ./check $id --tier quick 2>&1); rc=$?
  echo "== $id exit=$rc"
  echo "$out" | grep -E "VIOLATION|signature=|KNOWN-FINDING|HARNESS-ERROR|counterexamples|^\[" | cut -c1-260 | head -12
done
