#!/bin/bash
# usage: bin/seed_matrix.sh [seed-id ...]  -- for every seeded change: apply to /repo, run the checks named in meta.json (quick), undo; writes seeded/MATRIX.txt
cd "$(dirname "$0")/.."
ids=${@:-$(ls seeded | grep -v -E "README|MATRIX")}
for id in $ids; do
  checks=$(python3 -c "import json;print(' '.join(json.load(open('seeded/$id/meta.json'))['checks_expected_to_catch']))")
  [ -z "$checks" ] && { echo "$id SKIPPED (superseded, see meta.json)"; continue; }
  git -C /repo apply "$PWD/seeded/$id/patch.diff" || { echo "$id PATCH-DOES-NOT-APPLY"; continue; }
  for c in $checks; do
    out=$(./check $c --tier quick 2>&1); rc=$?
    sig=$(echo "$out" | grep -m1 "signature=" | sed 's/ ::.*//' | cut -c1-150)
    echo "$id $c exit=$rc $sig"
  done
  git -C /repo checkout -- .
done
