#!/usr/bin/env python3
"""Regenerates /verif/MANIFEST.json from the table below (run by hand after adding a check)."""
import json
import os

ROOT = os.path.dirname(os.path.dirname(os.path.abspath(__file__)))

TV = "translation_validation"
MC = "model_checking"
EX = "exploration"

CHECKS = {
    "C01": (MC, "z3 over all optimal answers of the captured HiGHS LP (layer = enumerated s-t route / balanced unit walk) + solver-chosen answers decoded through the real get_solution()",
            "Bounded: DAGs <= 4 (5) nodes, digraphs <= 3 inner nodes, k <= 4; for every such instance the claim holds for every assignment HiGHS may legally return, not only the one it returns.",
            "z3; highspy getLp() faithful; x columns located via edge_vars; walk decode delegated to C14", "5/C01"),
    "C02": (MC, "z3 on the captured LP: sum_i ite-decoded x*w == flow for every optimal answer (EXACT for ints, TOL(1e-9) for floats), connectivity cut for walk layers, decode of solver-chosen answers through real getters",
            "Bounded as C01; greedy route evaluated concretely per enumerated flow.", "z3; HiGHS answers feasible within tolerance; C14 for walk reconstruction", "5/C02"),
    "C03": (TV, "LP_k of the real kFlowDecomp vs route-enumeration spec: equi-feasibility for every k, reference minimum certified by unsat for all smaller k; wrapper result and lower bounds compared with it",
            "Bounded: DAGs <= 4 (5) nodes (+ three hand-made 5-10-edge DAGs for the lower-bound options), flows from <= 3 routes, k <= 6.", "z3; spec encodings (spec.py) validated by plain witness checker in replay", "5/C03"),
    "C04": (TV, "LP_k of the real kFlowDecompCycles vs Euler-walk spec (equi-feasibility, certified minimum); scale invariance by LP(f) vs LP(c*f) feasibility",
            "Bounded: digraphs <= 3 inner nodes, flow <= 6, k <= 4.", "z3; Euler spec (rank connectivity); per-edge multiplicity <= flow value for integer weights", "5/C04"),
    "C09": (MC, "z3-certified minimum cover on an independent spec vs get_width, LP_k feasibility of k-cover models, 'every optimal LP answer covers', Min* wrappers",
            "Bounded: DAGs <= 4 (5) nodes, digraphs <= 3 inner nodes (+ curated shapes up to 26 edges for the repetition bound), k <= 5; graph algorithms run concretely per enumerated graph.", "z3; spec encodings", "5/C09"),
    "C12": (MC, "z3 on the LP rows produced by each helper on a raw SolverWrapper: soundness and completeness (canonical witness for auxiliaries) over all variable values; CrossHair drives a real SolverWrapper through every sequence of 2 (thorough: 3) bound/objective operations and compares the LP snapshot taken inside the real optimize() (with and without the custom time-out armed) with the requested state",
            "Bounds enumerated (they must be concrete to cross into HiGHS); values symbolic; operation sequences: 6 kinds x 3 variables x 3 values per step, length 2 (3).", "z3; highspy getLp()", "5/C12"),
    "C05": (TV, "captured LP under each optimisation vector vs the all-off baseline LP of the same instance: z3 equi-feasibility and equality of certified optima; honest results compared for Min* wrappers and shortcut routes",
            "Bounded: curated + sampled small instances, vectors = baseline, single toggles, defaults, all-on, seeded random (full product in thorough).", "z3; HiGHS honest runs for the wrappers", "5/C05"),
    "C06": (MC, "z3 reachability on the product of the s-t graph with subsequence automata (rank-based well-founded witness; unsat = no walk of any length) for safety, slot incompatibility and pruning; QF_LRA for flow-safe paths",
            "Bounded: DAGs <= 4 (5) nodes, digraphs <= 3 inner nodes, all/half/3-edge trusted sets; dominator/bridge code runs concretely.", "z3; elementary lemma relating covers to walks through one trusted element", "5/C06"),
    "C07": (TV, "certified optimum of the captured LP (z3 decision queries) == certified optimum of an independent spec (route enumeration / Euler walks); per-edge errors and reported objective consistent for every optimal LP answer (z3) and through the real getters on solver-chosen answers",
            "Bounded: DAGs <= 4 (5) nodes, digraphs <= 3 inner nodes, weights 0..4, k <= 3; cyclic spec multiplicity <= max weight + 1.", "z3; spec encodings; HiGHS optimum certified on the LP before use", "5/C07"),
    "C08": (TV, "as C07 for the slack model (slack inequality on decoded solutions for every optimal LP answer; optimum vs spec), plus LP_k feasibility for k in {None, w*, w*+1} with w* the z3-certified covering number",
            "Bounded as C07.", "z3; spec encodings", "5/C08"),
    "C15": (TV, "captured MinGenSet/MinSetCover LPs vs direct z3 definitions: LP_k <=> Spec_k for every k, certified minimum, returned solution validated; legal tolerance-perturbed solver answers injected at the highspy boundary",
            "Bounded: <= 4 numbers from <= 3 generators in 1..5, multiplicity <= 3; universes <= 5, <= 5 subsets.", "z3; plain brute-force validity checker for returned generating sets", "5/C15"),
    "C16": (TV, "certified optimum of the captured phase-1 LP == optimum of the direct z3 definition (non-negative conserving flow minimising scaled L1 change); phase-2 LP: z3 shows every answer stays within the (1+eps) budget; returned graph evaluated",
            "Bounded: DAGs <= 4 (5) nodes, digraphs <= 3 inner nodes, weights 0..4.", "z3; spec encoding in c16.spec", "5/C16"),
    "C10": (TV, "z3 on the captured LP: every optimal answer contains each constraint to the requested (edge/length) fraction in one layer; LP optimum / feasibility == spec restricted to constraint-satisfying solutions; frame cases (ignored, zero-scaled, additional starts/ends) as optimum equalities",
            "Bounded as C07; coverage in {1, 0.5}, length coverage 0.6, constraint families contiguous / non-contiguous / duplicate / overlapping.", "z3; spec encodings", "5/C10"),
    "C11": (TV, "node-mode LP vs LP of the explicit expansion built by the harness: equal certified optimum / equi-feasibility (z3); CrossHair on NodeExpandedDiGraph kernels with symbolic node sequences",
            "Bounded: DAGs <= 4 (5) nodes, digraphs <= 3 inner nodes; kernel sequences <= 4 over 3 names.", "z3; CrossHair; reference expansion written in the harness", "5/C11"),
    "C17": (MC, "CrossHair over symbolic histories of reachability queries on fresh graph objects and on the graph object held by a freshly built model (cold/warm caches) against a BFS oracle; z3 maximality query for the edge antichain; bottleneck peeling evaluated",
            "Bounded: DAGs <= 4 (5) nodes, digraphs <= 3 inner nodes, histories of 2 (3) queries over 5 addressed positions.", "CrossHair; z3; BFS oracle", "5/C17"),
    "C18": (EX, "CrossHair enumerates symbolic histories of model constructions/solves that share the caller's argument objects; models run concretely (NoTracing); after every step caller data is compared with its pre-image and the result with a fresh-copy baseline; solve()/getters called twice on one object for every class (concrete)",
            "Exploration: histories of length 2 (3) over 11 (9) class variants x 3 sharing patterns on one DAG and one cyclic instance; plus every mutable default argument.", "CrossHair path enumeration; repr-based deep equality", "5/C18"),
    "C13": (MC, "CrossHair symbolic execution of the real search loops / abstract solve() over a symbolic outcome sequence (status per solver invocation, clock increments), plus injection of inconclusive statuses and of the wrapper's own SIGALRM time-out at every solver invocation of the real classes (HX shim), also into a second solve() of an already solved object; MinGenSet and NumPathsOptimization solved twice on one object under two symbolic status sequences; getters of never-solved / unsolvable models must raise",
            "Bounded: <= 5 solver invocations (3 + 3 for the two-run histories), 5-status alphabet; 'Confirmed over all paths' per harness with reachability twin.", "CrossHair/z3; k-model stubs validated by injected runs on the real classes", "5/C13"),
    "C14": (MC, "CrossHair symbolic execution of the real get_solution_walks/_reconstruct_eulerian_walk with a symbolic multiplicity per edge of enumerated universe graphs",
            "Bounded: universes <= 4 inner nodes, <= 10 edges, multiplicity <= 3; 'Confirmed over all paths' with reachability twin.", "CrossHair/z3", "5/C14"),
    "C19": (EX, "CrossHair on each constructor + solve with symbolic k, coverage, edge-weight codes, ignored-edge and corruption selectors; the documented-validity oracle is traced, the library call runs concretely per explored region",
            "Exploration (symbolic-input bug finding): one fixed DAG / cyclic graph (edge- and node-weighted), unit imbalance at magnitudes up to 2^45; 'Confirmed over all paths' means every region of the oracle over the stated small domains behaved.", "CrossHair; oracle transcribed from the property and docstrings", "5/C19"),
    "C20": (EX, "CrossHair on the real read_graph/read_graphs with a symbolic file structure (edge subset, weights, header/blank/#S counts, blocks, corruption kind and position) and one symbolic short edge line; stored width compared with a z3 cover spec",
            "Exploration: graphs over 4 node names / 8 candidate edges, count line = #nodes + d; the symbolic-string harness is bug-finding only (reported inconclusive when not confirmed).", "CrossHair; z3 spec for the stored width", "5/C20"),
}

NOT_YET = {}


def main():
    checks = []
    for pid, (lvl, tech, text, note, ref) in sorted(CHECKS.items()):
        checks.append({
            "property_id": pid,
            "quick_cmd": f"./check {pid} --tier quick",
            "thorough_cmd": f"./check {pid} --tier thorough",
            "evidence_file": f"evidence/{pid}.json",
            "replay_cmd_template": f"./check {pid} --replay {{path}}",
            "engine": "fpverif",
            "level_claimed": {"category": lvl, "text": text, "design_ref": f"DESIGN.md section {ref}"},
            "level_note": note,
            "technique": tech,
        })
    props = [json.loads(l)["id"] for l in open(os.path.join(ROOT, "properties.jsonl"))]
    na = []
    for pid in props:
        if pid not in CHECKS:
            na.append({"property_id": pid, "reason": NOT_YET.get(pid, "check not built yet in this round (planned in DESIGN.md section 5); not claimed")})
    man = {
        "version": 1,
        "setup_cmd": "bin/ensure_venv.sh",
        "hooks": {
            "guard": "FLOWPATHS_VERIF",
            "enable": "no source hooks: all interception happens from the harness process at the highspy boundary (fpverif/hx.py); the variable is exported by ./check but read by nothing in /repo",
            "baseline_off_cmd": "cd /repo && /venv/bin/python -m pytest -ra -q -p no:cacheprovider --timeout=900 --continue-on-collection-errors",
            "source_commits": [],
            "add_only": True,
        },
        "engines": [
            {"name": "fpverif", "path": "fpverif/", "serves_properties": sorted(CHECKS), "kind_free_text": "HiGHS-boundary LP capture -> z3 (QF_LIA/LRA), independent SMT spec encodings, CrossHair harnesses on real kernels"},
        ],
        "checks": checks,
        "not_applicable": na,
        "notes": "Solver-based checking of the real code: the MILP each model hands to HiGHS is captured at the highspy boundary on every run and decided by z3; see DESIGN.md. Exit 2 = harness error (never a verdict).",
    }
    with open(os.path.join(ROOT, "MANIFEST.json"), "w") as f:
        json.dump(man, f, indent=1)


if __name__ == "__main__":
    main()
