"""Building real flowpaths models from picklable task descriptions, with LP capture,
and locating LP columns through the documented variable dictionaries (E1a)."""
from __future__ import annotations

import copy

import networkx as nx

import flowpaths as fp
from flowpaths import kpathcovercycles as _kpcc  # noqa
from . import hx
from .core import HarnessError

CLASSES = {
    "kFlowDecomp": fp.kFlowDecomp,
    "MinFlowDecomp": fp.MinFlowDecomp,
    "kMinPathError": fp.kMinPathError,
    "kLeastAbsErrors": fp.kLeastAbsErrors,
    "kPathCover": fp.kPathCover,
    "MinPathCover": fp.MinPathCover,
    "kFlowDecompCycles": fp.kFlowDecompCycles,
    "MinFlowDecompCycles": fp.MinFlowDecompCycles,
    "kLeastAbsErrorsCycles": fp.kLeastAbsErrorsCycles,
    "kMinPathErrorCycles": fp.kMinPathErrorCycles,
    "kPathCoverCycles": fp.kPathCoverCycles,
    "MinPathCoverCycles": fp.MinPathCoverCycles,
    "MinErrorFlow": fp.MinErrorFlow,
    "MinGenSet": fp.MinGenSet,
    "MinSetCover": fp.MinSetCover,
}
DAG_K = ["kFlowDecomp", "kMinPathError", "kLeastAbsErrors", "kPathCover"]
CYC_K = ["kFlowDecompCycles", "kMinPathErrorCycles", "kLeastAbsErrorsCycles", "kPathCoverCycles"]
COVER = {"kPathCover", "MinPathCover", "kPathCoverCycles", "MinPathCoverCycles"}
CYCLIC = {"kFlowDecompCycles", "MinFlowDecompCycles", "kLeastAbsErrorsCycles", "kMinPathErrorCycles",
          "kPathCoverCycles", "MinPathCoverCycles"}
MIN_WRAPPERS = {"MinFlowDecomp", "MinFlowDecompCycles", "MinPathCover", "MinPathCoverCycles"}


def graph_of(task) -> nx.DiGraph:
    G = nx.DiGraph()
    if task.get("gid"):
        G.graph["id"] = task["gid"]
    attr = task.get("attr", "flow")
    for v in task.get("nodes", []):
        G.add_node(v)
    for e in task["edges"]:
        if len(e) >= 3 and e[2] is not None:
            G.add_edge(e[0], e[1], **{attr: e[2]})
        else:
            G.add_edge(e[0], e[1])
        if len(e) >= 4 and e[3] is not None:
            G[e[0]][e[1]][task.get("length_attr", "length")] = e[3]
    for v, f in (task.get("node_flow") or {}).items():
        if v not in G:
            G.add_node(v)
        if f is not None:
            G.nodes[v][attr] = f
    for v, l in (task.get("node_length") or {}).items():
        G.nodes[v][task.get("length_attr", "length")] = l
    return G


def _tup(x):
    """JSON round-trips tuples as lists; restore edges/constraints."""
    if isinstance(x, list):
        if len(x) == 2 and all(isinstance(y, str) for y in x):
            return tuple(x)
        return [_tup(y) for y in x]
    return x


def norm_kwargs(kw):
    kw = copy.deepcopy(kw)
    for key in ("elements_to_ignore", "trusted_edges_for_safety"):
        if key in kw:
            kw[key] = [tuple(e) if isinstance(e, (list, tuple)) else e for e in kw[key]]
    for key in ("subpath_constraints", "subset_constraints"):
        if key in kw:
            kw[key] = [[tuple(e) if isinstance(e, (list, tuple)) else e for e in c] for c in kw[key]]
    if "error_scaling" in kw and isinstance(kw["error_scaling"], list):
        kw["error_scaling"] = {(tuple(k) if isinstance(k, (list, tuple)) else k): v for k, v in kw["error_scaling"]}
    if kw.get("weight_type") in ("int", "float"):
        kw["weight_type"] = int if kw["weight_type"] == "int" else float
    return kw


def construct(task):
    """Instantiate the real class on a fresh graph.  Returns (model, G_user)."""
    cls = CLASSES[task["cls"]]
    G = graph_of(task)
    kw = norm_kwargs(task.get("kwargs", {}))
    if task["cls"] in COVER:
        m = cls(G, **kw)
    else:
        m = cls(G, task.get("attr", "flow"), **kw)
    return m, G


def build_and_solve(task, answers=None):
    """Construct + solve under capture.  Returns (model, G_user, solved, snaps)."""
    with hx.capture(answers) as sess:
        m, G = construct(task)
        ok = m.solve()
    return m, G, ok, sess.snaps


# --------------------------------------------------------------------------- E1a column location
def col(var):
    idx = getattr(var, "index", None)
    if idx is None:
        raise HarnessError("solver variable without .index (cannot locate LP column)")
    return int(idx)


def edge_cols(m):
    """{(u,v,i): column} through the documented ``edge_vars`` dictionary."""
    ev = getattr(m, "edge_vars", None)
    if not ev:
        raise HarnessError("model has no edge_vars (E1a cannot locate x columns)")
    return {key: col(ev[key]) for key in m.edge_indexes}


def dict_cols(m, name, keys=None):
    d = getattr(m, name, None)
    if d is None or (hasattr(d, "__len__") and len(d) == 0):
        return None
    if keys is None:
        try:
            keys = list(d.keys())
        except AttributeError:
            raise HarnessError(f"{name}: cannot enumerate keys")
    return {k: col(d[k]) for k in keys}


def weight_cols(m):
    return dict_cols(m, "path_weights_vars", list(range(m.k)))


def slack_cols(m):
    return dict_cols(m, "path_slacks_vars", list(range(m.k)))


def check_honest_against_lp(lp, eps=1e-6):
    """Translator validation (a): HiGHS's own answer must satisfy the translated rows."""
    if lp.honest_vals is None:
        return []
    return lp.violations(lp.honest_vals, eps)
