"""SPEC -- independent reference encodings (DESIGN 2.3), written from the property statements.

DAG problems: the finite list of admissible routes is enumerated; a k-solution is k route indices
(or "empty") plus weights.  Cyclic problems: a walk is (a) an explicit bounded node sequence
(``WalkSeq``) or (b) an Euler multiplicity vector with rank-based connectivity (``WalkEuler``);
(a) and (b) are cross-validated on the families.
"""
from __future__ import annotations

import math
from fractions import Fraction

import networkx as nx
import z3

from . import families as F
from .smt import q


# ----------------------------------------------------------------------------------------- DAG
class RouteSpec:
    """k routes of a DAG chosen among the enumerated admissible routes, with weights."""

    def __init__(self, G, k, wtype="int", starts=(), ends=(), allow_empty=False, tag="S", wmax=None, sym_break=True):
        self.G = G
        self.k = k
        self.routes = F.dag_routes(G, starts, ends)
        R = len(self.routes)
        self.R = R
        self.tag = tag
        self.c = [z3.Int(f"{tag}_c{i}") for i in range(k)]
        mk = z3.Int if wtype == "int" else z3.Real
        self.w = [mk(f"{tag}_w{i}") for i in range(k)]
        self.cons = []
        hi = R if allow_empty else R - 1
        for i in range(k):
            self.cons += [self.c[i] >= 0, self.c[i] <= hi, self.w[i] >= 0]
            if wmax is not None:
                self.cons.append(self.w[i] <= q(wmax))
        if sym_break:
            for i in range(k - 1):
                self.cons.append(self.c[i] <= self.c[i + 1])
        self._edge_routes = {}
        self._node_routes = {}
        for r, p in enumerate(self.routes):
            for e in zip(p[:-1], p[1:]):
                self._edge_routes.setdefault(e, []).append(r)
            for v in p:
                self._node_routes.setdefault(v, []).append(r)

    def contains(self, i, elem):
        rs = self._node_routes.get(elem, []) if isinstance(elem, str) else self._edge_routes.get(tuple(elem), [])
        if not rs:
            return z3.BoolVal(False)
        return z3.Or([self.c[i] == r for r in rs])

    def explained(self, elem):
        return z3.Sum([z3.If(self.contains(i, elem), self.w[i], 0) for i in range(self.k)])

    def nonempty(self, i):
        return self.c[i] < self.R

    def covers_constraint(self, i, constraint, need):
        """route i contains at least `need` (possibly length-weighted) of the constraint's edges."""
        ok = []
        for r, p in enumerate(self.routes):
            es = set(zip(p[:-1], p[1:]))
            nodes = set(p)
            got = 0
            for e, ln in constraint:
                inside = (e in nodes) if isinstance(e, str) else (tuple(e) in es)
                if inside:
                    got += ln
            if got >= need - 1e-12:
                ok.append(r)
        return z3.Or([self.c[i] == r for r in ok]) if ok else z3.BoolVal(False)

    def read(self, model):
        from .smt import fr_of
        routes = []
        for i in range(self.k):
            ci = model.eval(self.c[i], model_completion=True).as_long()
            routes.append(list(self.routes[ci]) if ci < self.R else [])
        return routes, [fr_of(model, w) for w in self.w]


# ----------------------------------------------------------------------------------------- walks
class WalkEuler:
    """k walks of a digraph as Euler multiplicity vectors (balanced, one unit from a start, one unit into
    an end, every used edge reachable from the start through used edges)."""

    def __init__(self, G, k, wtype="int", starts=(), ends=(), allow_empty=False, tag="W", mult_max=4, wmax=None, caps=None, bound_visits=False):
        self.G = G
        self.k = k
        self.tag = tag
        S, T = F.sources_sinks(G, starts, ends)
        self.S, self.T = S, T
        E = list(G.edges())
        self.E = E
        mk = z3.Int if wtype == "int" else z3.Real
        self.w = [mk(f"{tag}_w{i}") for i in range(k)]
        self.m = [{e: z3.Int(f"{tag}_m{i}_{j}") for j, e in enumerate(E)} for i in range(k)]
        self.st = [{v: z3.Int(f"{tag}_st{i}_{v}") for v in S} for i in range(k)]   # walk starts at v
        self.en = [{v: z3.Int(f"{tag}_en{i}_{v}") for v in T} for i in range(k)]   # walk ends at v
        self.rank = [{v: z3.Int(f"{tag}_rk{i}_{v}") for v in G.nodes()} for i in range(k)]
        self.mult_max = mult_max
        n = G.number_of_nodes()
        cons = []
        for i in range(k):
            cons.append(self.w[i] >= 0)
            if wmax is not None:
                cons.append(self.w[i] <= q(wmax))
            for e in E:
                cap = mult_max if caps is None else caps.get(e, mult_max)
                cons += [self.m[i][e] >= 0, self.m[i][e] <= cap]
            for v in S:
                cons += [self.st[i][v] >= 0, self.st[i][v] <= 1]
            for v in T:
                cons += [self.en[i][v] >= 0, self.en[i][v] <= 1]
            tot_st = z3.Sum(list(self.st[i].values()))
            tot_en = z3.Sum(list(self.en[i].values()))
            if allow_empty:
                cons += [tot_st <= 1, tot_en == tot_st]
                cons.append(z3.Implies(tot_st == 0, z3.And([self.m[i][e] == 0 for e in E])))
            else:
                cons += [tot_st == 1, tot_en == 1]
            for v in G.nodes():
                inn = z3.Sum([self.m[i][(u, v)] for u in G.predecessors(v)] + ([self.st[i][v]] if v in self.st[i] else []) + [z3.IntVal(0)])
                out = z3.Sum([self.m[i][(v, x)] for x in G.successors(v)] + ([self.en[i][v]] if v in self.en[i] else []) + [z3.IntVal(0)])
                cons.append(inn == out)
                if bound_visits:
                    # node-weighted use: a node is visited at most mult_max + 1 times (stated spec bound; `explained`
                    # on nodes case-splits up to it, so the count must not exceed it)
                    cons.append(inn <= mult_max + 1)
                # connectivity: a node with used incoming edges and no start token has a used in-edge from a lower-ranked node
                cons += [self.rank[i][v] >= 0, self.rank[i][v] <= n]
                preds = list(G.predecessors(v))
                used_in = z3.Sum([self.m[i][(u, v)] for u in preds] + [z3.IntVal(0)])
                stv = self.st[i][v] if v in self.st[i] else z3.IntVal(0)
                lower = [z3.And(self.m[i][(u, v)] >= 1, self.rank[i][u] < self.rank[i][v]) for u in preds if u != v]
                cons.append(z3.Implies(z3.And(used_in >= 1, stv == 0), z3.Or(lower) if lower else z3.BoolVal(False)))
        self.cons = cons

    def count(self, i, elem):
        if isinstance(elem, str):
            # number of visits of node elem = inflow incl. start token
            return z3.Sum([self.m[i][(u, elem)] for u in self.G.predecessors(elem)] + ([self.st[i][elem]] if elem in self.st[i] else []) + [z3.IntVal(0)])
        return self.m[i][tuple(elem)]

    def contains(self, i, elem):
        return self.count(i, elem) >= 1

    def explained(self, elem, hi=None):
        hi = hi or (self.mult_max + 1 if isinstance(elem, str) else self.mult_max)
        terms = []
        for i in range(self.k):
            c = self.count(i, elem)
            terms.append(z3.Sum([z3.If(c == j, j * self.w[i], 0) for j in range(1, hi + 1)]))
        return z3.Sum(terms)

    def nonempty(self, i):
        return z3.Sum(list(self.st[i].values())) == 1

    def read(self, model):
        from .smt import fr_of
        out = []
        for i in range(self.k):
            out.append({e: model.eval(self.m[i][e], model_completion=True).as_long() for e in self.E})
        return out, [fr_of(model, w) for w in self.w]


class WalkSeq:
    """k walks as explicit node sequences of length <= L (padded)."""

    def __init__(self, G, k, L, wtype="int", starts=(), ends=(), allow_empty=False, tag="Q", wmax=None):
        self.G = G
        self.k = k
        self.L = L
        nodes = list(G.nodes())
        self.idx = {v: j for j, v in enumerate(nodes)}
        n = len(nodes)
        PAD = n
        self.PAD = PAD
        S, T = F.sources_sinks(G, starts, ends)
        mk = z3.Int if wtype == "int" else z3.Real
        self.w = [mk(f"{tag}_w{i}") for i in range(k)]
        self.p = [[z3.Int(f"{tag}_p{i}_{t}") for t in range(L)] for i in range(k)]
        cons = []
        allowed = [(self.idx[u], self.idx[v]) for (u, v) in G.edges()] + [(self.idx[v], PAD) for v in T] + [(PAD, PAD)]
        for i in range(k):
            cons.append(self.w[i] >= 0)
            if wmax is not None:
                cons.append(self.w[i] <= q(wmax))
            first = [self.p[i][0] == self.idx[v] for v in S]
            if allow_empty:
                first.append(self.p[i][0] == PAD)
            cons.append(z3.Or(first))
            for t in range(L):
                cons += [self.p[i][t] >= 0, self.p[i][t] <= PAD]
            for t in range(L - 1):
                cons.append(z3.Or([z3.And(self.p[i][t] == a, self.p[i][t + 1] == b) for (a, b) in allowed]))
            cons.append(self.p[i][L - 1] == PAD)
        self.cons = cons

    def _steps(self, i, e):
        a, b = self.idx[e[0]], self.idx[e[1]]
        return [z3.And(self.p[i][t] == a, self.p[i][t + 1] == b) for t in range(self.L - 1)]

    def count(self, i, elem):
        if isinstance(elem, str):
            a = self.idx[elem]
            return z3.Sum([z3.If(self.p[i][t] == a, 1, 0) for t in range(self.L)])
        return z3.Sum([z3.If(s, 1, 0) for s in self._steps(i, elem)])

    def contains(self, i, elem):
        if isinstance(elem, str):
            a = self.idx[elem]
            return z3.Or([self.p[i][t] == a for t in range(self.L)])
        return z3.Or(self._steps(i, elem))

    def explained(self, elem, hi=None):
        terms = []
        for i in range(self.k):
            if isinstance(elem, str):
                a = self.idx[elem]
                terms += [z3.If(self.p[i][t] == a, self.w[i], 0) for t in range(self.L)]
            else:
                terms += [z3.If(s, self.w[i], 0) for s in self._steps(i, elem)]
        return z3.Sum(terms)

    def nonempty(self, i):
        return self.p[i][0] != self.PAD

    def read(self, model):
        from .smt import fr_of
        inv = {j: v for v, j in self.idx.items()}
        walks = []
        for i in range(self.k):
            w = []
            for t in range(self.L):
                j = model.eval(self.p[i][t], model_completion=True).as_long()
                if j == self.PAD:
                    break
                w.append(inv[j])
            walks.append(w)
        return walks, [fr_of(model, x) for x in self.w]


# ----------------------------------------------------------------------------------------- problem statements
def demands_of(G, attr="flow", node_mode=False, ignored=()):
    """[(element, value)] for the non-ignored elements that carry the attribute."""
    ign = {tuple(x) if not isinstance(x, str) else x for x in ignored}
    out = []
    if node_mode:
        for v in G.nodes():
            if attr in G.nodes[v] and v not in ign:
                out.append((v, G.nodes[v][attr]))
    else:
        for (u, v) in G.edges():
            if attr in G[u][v] and (u, v) not in ign:
                out.append(((u, v), G[u][v][attr]))
    return out


def flow_decomposition(sp, demands):
    return [sp.explained(e) == q(f) for e, f in demands]


def cover(sp, elements):
    return [z3.Or([sp.contains(i, e) for i in range(sp.k)]) for e in elements]


def abs_error_objective(sp, demands, scaling=None, tag="err", wtype="int"):
    """returns (constraints, objective term) for sum scale*|f - explained|"""
    cons = []
    terms = []
    mk = z3.Real
    for j, (e, f) in enumerate(demands):
        sc = 1 if scaling is None else scaling.get(e, 1)
        if sc == 0:
            continue
        er = mk(f"{tag}_{sp.tag}_{j}")
        ex = sp.explained(e)
        cons += [er >= q(f) - ex, er >= ex - q(f)]
        terms.append(q(sc) * er)
    return cons, (z3.Sum(terms) if terms else z3.RealVal(0))


def constraints_satisfied(sp, constraints, coverage=1.0, lengths=None):
    """every constraint (list of elements) is contained, to the coverage fraction, in one route (DAG RouteSpec only)."""
    out = []
    for c in constraints:
        items = [(e, 1 if lengths is None else lengths.get(tuple(e) if not isinstance(e, str) else e, 1)) for e in c]
        total = sum(l for _e, l in items)
        need = total * coverage
        out.append(z3.Or([sp.covers_constraint(i, items, need) for i in range(sp.k)]))
    return out


def subset_constraints_satisfied(sp, constraints, coverage=1.0):
    """walk specs: some walk contains at least coverage*|set| distinct edges of the set."""
    out = []
    for c in constraints:
        cs = list({tuple(e) if not isinstance(e, str) else e for e in c})
        need = len(cs) * coverage
        alts = []
        for i in range(sp.k):
            alts.append(z3.Sum([z3.If(sp.contains(i, e), 1, 0) for e in cs]) >= math.ceil(need - 1e-9))
        out.append(z3.Or(alts))
    return out
