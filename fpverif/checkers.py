"""Plain-python result checkers (used on honest outputs and in replay).  Written from the
property statements; they never call flowpaths code."""
from __future__ import annotations

from fractions import Fraction


def route_problems(G, route, starts=(), ends=(), simple=False):
    """Why `route` (list of nodes) is not an admissible source-to-sink route of the caller's graph G."""
    out = []
    if len(route) == 0:
        return ["empty route"]
    for v in route:
        if v not in G:
            out.append(f"node {v!r} is not a node of the input graph")
    if out:
        return out
    for u, v in zip(route[:-1], route[1:]):
        if not G.has_edge(u, v):
            out.append(f"({u!r},{v!r}) is not an edge of the input graph")
    if G.in_degree(route[0]) != 0 and route[0] not in starts:
        out.append(f"first node {route[0]!r} is neither a source nor a declared start")
    if G.out_degree(route[-1]) != 0 and route[-1] not in ends:
        out.append(f"last node {route[-1]!r} is neither a sink nor a declared end")
    if simple and len(set(route)) != len(route):
        out.append("path repeats a node")
    return out


def solution_shape_problems(sol, key, k=None, exact_k=False, has_slack=False):
    out = []
    if not isinstance(sol, dict) or key not in sol:
        return [f"solution has no key {key!r}: {type(sol).__name__}"]
    routes = sol[key]
    if "weights" in sol:
        ws = sol["weights"]
        if ws is None or len(ws) != len(routes):
            out.append(f"{len(routes)} routes but weights={ws!r}")
        else:
            for w in ws:
                if w is None or w < 0:
                    out.append(f"negative/None weight {w!r}")
    if has_slack:
        sl = sol.get("slacks")
        if sl is None or len(sl) != len(routes):
            out.append(f"{len(routes)} routes but slacks={sl!r}")
        else:
            for s in sl:
                if s is None or s < 0:
                    out.append(f"negative/None slack {s!r}")
    if k is not None:
        if len(routes) > k:
            out.append(f"{len(routes)} routes returned by a k={k} model")
        if exact_k and len(routes) != k:
            out.append(f"{len(routes)} routes returned, exactly k={k} required")
    return out


def explained(G_edges, routes, weights):
    f = {e: Fraction(0) for e in G_edges}
    bad = []
    for r, w in zip(routes, weights):
        for e in zip(r[:-1], r[1:]):
            if e in f:
                f[e] += Fraction(w)
            else:
                bad.append(e)
    return f, bad


def node_explained(nodes, routes, weights):
    f = {v: Fraction(0) for v in nodes}
    for r, w in zip(routes, weights):
        for v in r:
            if v in f:
                f[v] += Fraction(w)
    return f
