"""E1a building blocks: statements about "layer i of an LP assignment" written independently of
the code's own formulation (route enumeration for DAGs, Euler + reachability cut for walks)."""
from __future__ import annotations

import z3

from . import families
from .core import HarnessError
from .models import edge_cols


def internal_names(route, node_mode):
    if not node_mode:
        return list(route)
    out = []
    for v in route:
        out += [v + ".0", v + ".1"]
    return out


def internal_edge(e, node_mode):
    """user element (edge tuple, or node name in node mode) -> internal edge that carries it."""
    if node_mode and isinstance(e, str):
        return (e + ".0", e + ".1")
    if node_mode:
        return (e[0] + ".1", e[1] + ".0")
    return tuple(e)


def route_indicator(m, route, node_mode):
    """edge set of the internal s-t path corresponding to a user route; None if not a path of m.G."""
    p = [m.G.source] + internal_names(route, node_mode) + [m.G.sink]
    es = list(zip(p[:-1], p[1:]))
    for (u, v) in es:
        if not m.G.has_edge(u, v):
            return None
    return set(es)


def admissible_indicators(m, G_user, starts, ends, node_mode):
    routes = families.dag_routes(G_user, starts, ends)
    inds = []
    kept = []
    for r in routes:
        ind = route_indicator(m, r, node_mode)
        if ind is not None:
            inds.append(ind)
            kept.append(r)
    return kept, inds, routes


def x_of(enc, cols, m, i):
    return {(u, v): enc.xs[cols[(u, v, i)]] for (u, v) in m.G.edges()}


def dag_layer_is(xi, ind):
    return z3.And([xi[e] == (1 if e in ind else 0) for e in xi])


def dag_layer_not_admissible(xi, inds, allow_empty):
    """layer x-vector differs from every admissible route indicator (and from 0 when empties are allowed)."""
    parts = [z3.Or([xi[e] != (1 if e in ind else 0) for e in xi]) for ind in inds]
    if allow_empty:
        parts.append(z3.Or([xi[e] != 0 for e in xi]))
    return z3.And(parts) if parts else z3.BoolVal(True)


def walk_layer_not_walk(xi, m, allow_empty, tag, connectivity=True):
    """layer multiplicity vector is NOT the edge-count vector of a single source-to-sink walk of m.G
    (Euler: balanced at inner nodes, exactly one unit leaves the source, every used edge reachable from
    the source through used edges), nor all-zero when empties are allowed."""
    G = m.G
    bad = []
    src_out = z3.Sum([xi[(G.source, v)] for v in G.successors(G.source)])
    bad.append(z3.Or([xi[e] < 0 for e in xi]))
    for v in G.nodes():
        if v in (G.source, G.sink):
            continue
        ins = [xi[(u, v)] for u in G.predecessors(v)]
        outs = [xi[(v, w)] for w in G.successors(v)]
        bad.append((z3.Sum(ins) if ins else z3.IntVal(0)) != (z3.Sum(outs) if outs else z3.IntVal(0)))
    # reachability-closed set witness
    r = {v: z3.Bool(f"reach_{tag}_{n}") for n, v in enumerate(G.nodes())}
    closed = [r[G.source]] + [z3.Implies(z3.And(xi[(u, v)] > 0, r[u]), r[v]) for (u, v) in G.edges()]
    unreachable_used = z3.Or([z3.And(xi[(u, v)] > 0, z3.Not(r[u])) for (u, v) in G.edges()])
    if connectivity:
        bad.append(z3.And(z3.And(closed), unreachable_used))
    allzero = z3.And([xi[e] == 0 for e in xi])
    if allow_empty:
        bad.append(z3.And(src_out != 1, z3.Not(allzero)))
        bad.append(z3.And(src_out == 0, z3.Not(allzero)))
    else:
        bad.append(src_out != 1)
    return z3.Or(bad)


def sub_multiset(big, small):
    """z3: every count of `small` <= that of `big` (dicts edge->term)."""
    return z3.And([big[e] >= small[e] for e in small])
