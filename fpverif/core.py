"""Check runner: task pool, verdict bookkeeping, replay-before-report, known findings, evidence."""
from __future__ import annotations

import hashlib
import json
import multiprocessing as mp
import os
import sys
import time
import traceback

ROOT = os.path.dirname(os.path.dirname(os.path.abspath(__file__)))
EVID = os.path.join(ROOT, "evidence")
REPLAYS = os.path.join(ROOT, "replays")
KNOWN = os.path.join(ROOT, "known_findings.json")

EXIT_OK, EXIT_VIOLATION, EXIT_HARNESS = 0, 1, 2


class HarnessError(Exception):
    pass


# --------------------------------------------------------------------------- task results
def new_result():
    return {
        "obligations": 0,      # solver obligations posed
        "discharged": 0,       # ... decided in favour of the property
        "inconclusive": 0,     # unknown / timeout / not confirmed
        "violations": [],      # list of dicts {signature, summary, replay:{...}}
        "harness_errors": [],  # strings
        "samples": [],         # a few obligations written out
        "nontrivial": 0,
        "evaluations": 0,
        "solver_s": 0.0,
        "queries": 0,
        "functions": [],
        "extra": {},
    }


def merge(acc, r):
    for k in ("obligations", "discharged", "inconclusive", "nontrivial", "evaluations", "queries"):
        acc[k] += r.get(k, 0)
    acc["solver_s"] += r.get("solver_s", 0.0)
    acc["violations"].extend(r.get("violations", []))
    acc["harness_errors"].extend(r.get("harness_errors", []))
    for s in r.get("samples", []):
        # keep a varied set: at most 2 samples per kind of obligation, at most 24 in total
        kind = str(s.get("obligation") or s.get("harness") or s.get("function") or "")[:60] if isinstance(s, dict) else ""
        cnt = acc.setdefault("_sample_kinds", {})
        if cnt.get(kind, 0) < 2 and len(acc["samples"]) < 24:
            cnt[kind] = cnt.get(kind, 0) + 1
            acc["samples"].append(s)
    for f in r.get("functions", []):
        if f not in acc["functions"]:
            acc["functions"].append(f)
    for k, v in r.get("extra", {}).items():
        if isinstance(v, (int, float)):
            acc["extra"][k] = acc["extra"].get(k, 0) + v
        elif isinstance(v, list):
            acc["extra"].setdefault(k, [])
            for x in v:
                if x not in acc["extra"][k] and len(acc["extra"][k]) < 40:
                    acc["extra"][k].append(x)
        else:
            acc["extra"][k] = v


def _run_task(args):
    fn, task = args
    import warnings
    warnings.filterwarnings("ignore")
    import logging
    logging.disable(logging.CRITICAL)
    from . import smt
    smt.STATS.update({"queries": 0, "solver_s": 0.0, "unknown": 0})
    t = time.time()
    try:
        r = fn(task)
    except Exception as e:  # noqa
        r = new_result()
        r["harness_errors"].append(f"{getattr(fn, '__name__', fn)}({_short(task)}): {type(e).__name__}: {e}\n{traceback.format_exc()[-1500:]}")
    r["solver_s"] = r.get("solver_s", 0.0) + smt.STATS["solver_s"]
    r["queries"] = r.get("queries", 0) + smt.STATS["queries"]
    if smt.XCHECK["every"]:
        ex = r.setdefault("extra", {})
        ex["crosscheck_external_runs"] = smt.XCHECK["done"]
        ex["crosscheck_agree"] = smt.XCHECK["agree"]
        ex["crosscheck_inconclusive"] = smt.XCHECK["skipped"]
        if smt.XCHECK["disagree"]:
            r.setdefault("harness_errors", []).append("solver cross-check disagreement: " + "; ".join(smt.XCHECK["disagree"][:3]))
        smt.XCHECK.update({"done": 0, "agree": 0, "disagree": [], "skipped": 0})
    r["wall"] = time.time() - t
    return r


def _short(x, n=200):
    s = repr(x)
    return s if len(s) <= n else s[:n] + "..."


def _cost(t):
    try:
        if "cost" in t:
            return t["cost"]
        kw = t.get("kwargs") or {}
        cyc = bool(t.get("cyc")) or "Cycles" in str(t.get("cls", ""))
        k = kw.get("k") or t.get("k") or 1
        extra = 5 if (t.get("starts") or t.get("ends") or kw.get("additional_starts") or kw.get("additional_ends")) else 0
        return (100 if cyc else 0) + 10 * (k if isinstance(k, int) else 1) + extra + len(t.get("edges") or [])
    except Exception:
        return 0


def run_tasks(fn, tasks, procs=None, deadline_s=None, label=""):
    """Run fn(task) for every task in a fork pool; stop handing out tasks after the deadline."""
    procs = procs or min(16, os.cpu_count() or 4)
    acc = new_result()
    acc["tasks_total"] = len(tasks)
    acc["tasks_done"] = 0
    if not tasks:
        return acc
    t0 = time.time()
    # longest-first: the expensive cases (cyclic, larger k, additional starts/ends) are handed out first so that one slow
    # case does not end up alone at the deadline
    tasks = sorted(tasks, key=_cost, reverse=True)
    ctx = mp.get_context("fork")
    with ctx.Pool(min(procs, len(tasks)), maxtasksperchild=50) as pool:
        it = pool.imap_unordered(_run_task, [(fn, t) for t in tasks], chunksize=1)
        while True:
            try:
                if deadline_s is not None:
                    left = deadline_s - (time.time() - t0)
                    if left <= 0:
                        raise mp.TimeoutError()
                    r = it.next(timeout=left)
                else:
                    r = it.next()
            except StopIteration:
                break
            except mp.TimeoutError:
                pool.terminate()
                break
            merge(acc, r)
            acc["tasks_done"] += 1
    return acc


# --------------------------------------------------------------------------- findings
def load_known():
    if not os.path.exists(KNOWN):
        return []
    with open(KNOWN) as f:
        return json.load(f).get("findings", [])


def classify(pid, violations):
    """Split violations into (known, new) by signature."""
    known = [k for k in load_known() if k.get("property") == pid and k.get("status") == "known"]
    sigs = {k["signature"]: k for k in known}
    kn, new = [], []
    for v in violations:
        if v["signature"] in sigs:
            kn.append(v)
        else:
            new.append(v)
    return kn, new


def write_replay(pid, v):
    d = os.path.join(REPLAYS, pid)
    os.makedirs(d, exist_ok=True)
    blob = json.dumps(v, sort_keys=True, default=str)
    h = hashlib.sha1(blob.encode()).hexdigest()[:12]
    p = os.path.join(d, f"{h}.json")
    with open(p, "w") as f:
        f.write(blob)
    return p


# --------------------------------------------------------------------------- evidence
def write_evidence(pid, tier, seed, level, acc, wall, rule, assumptions, bounds, extra_cov=None, violations=0):
    os.makedirs(EVID, exist_ok=True)
    cov = {
        "evaluations": max(1, acc["evaluations"]),
        "distinct_nontrivial": acc["nontrivial"],
        "rule": rule,
        "samples": acc["samples"][:24] or ["(no sample recorded)"],
        "obligations": acc["obligations"],
        "discharged": acc["discharged"],
        "inconclusive": acc["inconclusive"],
        "solver_queries": acc["queries"],
        "solver_time_s": round(acc["solver_s"], 2),
        "functions_encoded": acc["functions"],
        "bounds": bounds,
        "tasks_total": acc.get("tasks_total"),
        "tasks_done": acc.get("tasks_done"),
        "exhaustive": False,
    }
    if level == "model_checking":
        cov["states"] = max(1, acc["obligations"])
        cov["transitions"] = max(1, acc["queries"])
        cov["traces_validated_against_impl"] = acc["extra"].get("traces_validated_against_impl", 0)
    if level == "translation_validation":
        cov["programs"] = max(1, acc["extra"].get("programs", acc["evaluations"]))
        cov["disagreements_checked"] = acc["extra"].get("disagreements_checked", 0)
    cov.update(acc["extra"])
    if extra_cov:
        cov.update(extra_cov)
    ev = {
        "property_id": pid,
        "tier": tier,
        "seed": seed,
        "level": level,
        "coverage": cov,
        "assumptions": assumptions,
        "wall_s": round(wall, 2),
        "violations": violations,
    }
    with open(os.path.join(EVID, f"{pid}.json"), "w") as f:
        json.dump(ev, f, indent=1, default=str)
    return ev


# --------------------------------------------------------------------------- driver
def finish(pid, tier, seed, level, acc, t0, rule, assumptions, bounds, replay_fn, extra_cov=None):
    """Replay-before-report, known-finding classification, evidence, exit code."""
    # de-duplicate violations by signature+summary
    uniq = {}
    counts = {}
    for v in acc["violations"]:
        uniq.setdefault(v["signature"], v)
        counts[v["signature"]] = counts.get(v["signature"], 0) + 1
    viols = list(uniq.values())
    for sg, c in sorted(counts.items()):
        print(f"  counterexamples: {c:4d} x {sg}")
    kn, new = classify(pid, viols)
    code = EXIT_OK
    reported = 0
    # known findings: one line per signature
    seen = set()
    for v in kn:
        if v["signature"] in seen:
            continue
        seen.add(v["signature"])
        print(f"KNOWN-FINDING: property={pid} {v['signature']} :: {v.get('summary','')}")
    nonrepro = []
    for v in new[:10]:
        ok = False
        try:
            ok = bool(replay_fn(v["replay"]))
        except Exception as e:  # noqa
            nonrepro.append(f"replay crashed: {type(e).__name__}: {e}")
        if ok:
            p = write_replay(pid, v)
            print(f"VIOLATION property={pid} replay={p}")
            print(f"  signature={v['signature']} :: {v.get('summary','')}")
            reported += 1
            code = EXIT_VIOLATION
        else:
            nonrepro.append(f"counterexample did not reproduce: {v['signature']} :: {v.get('summary','')}")
    if nonrepro:
        for s in nonrepro:
            print("HARNESS-ERROR:", s)
        if code == EXIT_OK:
            code = EXIT_HARNESS
    if acc["harness_errors"]:
        for s in acc["harness_errors"][:5]:
            print("HARNESS-ERROR:", s)
        print(f"  ({len(acc['harness_errors'])} harness errors)")
        if code == EXIT_OK:
            code = EXIT_HARNESS
    wall = time.time() - t0
    extra = dict(extra_cov or {})
    extra["known_findings_hit"] = sorted(seen)
    write_evidence(pid, tier, seed, level, acc, wall, rule, assumptions, bounds, extra, violations=reported)
    print(f"[{pid}] tier={tier} seed={seed} obligations={acc['obligations']} discharged={acc['discharged']} "
          f"inconclusive={acc['inconclusive']} queries={acc['queries']} solver_s={acc['solver_s']:.1f} "
          f"tasks={acc.get('tasks_done')}/{acc.get('tasks_total')} wall={wall:.1f}s known={len(seen)} new={reported}")
    return code
