"""Instance families (DESIGN section 4).  Everything here is *enumerated*, not symbolic."""
from __future__ import annotations

import itertools
import random

import networkx as nx

NODES = ["a", "b", "c", "d", "e", "f"]


# --------------------------------------------------------------------------- graphs
def mk(edges, flow=None, attr="flow", node_flow=None, gid=None):
    """edges: iterable of (u,v) or (u,v,f)."""
    G = nx.DiGraph()
    for e in edges:
        if len(e) == 3:
            G.add_edge(e[0], e[1], **{attr: e[2]})
        else:
            G.add_edge(e[0], e[1])
    if flow:
        for (u, v), f in flow.items():
            G[u][v][attr] = f
    if node_flow:
        for v, f in node_flow.items():
            if v not in G:
                G.add_node(v)
            if f is not None:
                G.nodes[v][attr] = f
    if gid:
        G.graph["id"] = gid
    return G


def dag_edge_sets(n):
    """All non-empty edge subsets of the transitive tournament on n nodes that use all n nodes
    (smaller node sets are produced by smaller n)."""
    nodes = NODES[:n]
    pairs = [(nodes[i], nodes[j]) for i in range(n) for j in range(i + 1, n)]
    for r in range(1, len(pairs) + 1):
        for sub in itertools.combinations(pairs, r):
            used = {x for e in sub for x in e}
            if len(used) == n:
                yield list(sub)


def all_dags(nmax):
    for n in range(2, nmax + 1):
        yield from dag_edge_sets(n)


CURATED_DAGS = {
    "single_edge": [("a", "b")],
    "path3": [("a", "b"), ("b", "c")],
    "star_out": [("a", "b"), ("a", "c"), ("a", "d")],
    "star_in": [("a", "d"), ("b", "d"), ("c", "d")],
    "diamond": [("a", "b"), ("a", "c"), ("b", "d"), ("c", "d")],
    "diamond_shortcut": [("a", "b"), ("a", "c"), ("b", "d"), ("c", "d"), ("a", "d")],
    "diamond_cross": [("a", "b"), ("a", "c"), ("b", "c"), ("b", "d"), ("c", "d")],
    "two_components": [("a", "b"), ("c", "d")],
    "multi_src_sink": [("a", "c"), ("b", "c"), ("c", "d"), ("c", "e")],
    "bubble_chain": [("a", "b"), ("a", "c"), ("b", "d"), ("c", "d"), ("d", "e"), ("d", "f"), ("e", "f")],
    "ladder": [("a", "b"), ("b", "c"), ("c", "d"), ("a", "c"), ("b", "d")],
    "funnel": [("a", "b"), ("a", "c"), ("b", "d"), ("c", "d"), ("d", "e")],
    "bowtie": [("a", "c"), ("b", "c"), ("c", "d"), ("d", "e"), ("d", "f")],
    "side_branch": [("a", "b"), ("b", "d"), ("a", "c"), ("c", "b")],
    "two_chains_cross": [("a", "b"), ("b", "e"), ("c", "d"), ("d", "f"), ("b", "d")],
}

CURATED_DIGRAPHS = {
    "single_edge_st": [("s", "t")],
    "path_st": [("s", "a"), ("a", "t")],
    "self_loop": [("s", "a"), ("a", "a"), ("a", "t")],
    "side_branch_cyc": [("s", "a"), ("a", "b"), ("b", "a"), ("b", "t"), ("s", "z"), ("z", "a")],
    "self_loop_bypass": [("s", "x"), ("x", "a"), ("s", "a"), ("a", "a"), ("a", "t")],
    "two_self_loops": [("s", "a"), ("a", "a"), ("a", "b"), ("b", "b"), ("b", "t"), ("s", "b")],
    "two_cycle": [("s", "a"), ("a", "b"), ("b", "a"), ("b", "t")],
    "two_cycle_exit_a": [("s", "a"), ("a", "b"), ("b", "a"), ("a", "t")],
    "touching_cycles": [("s", "a"), ("a", "b"), ("b", "a"), ("a", "c"), ("c", "a"), ("a", "t")],
    "nested": [("s", "a"), ("a", "b"), ("b", "c"), ("c", "a"), ("b", "a"), ("c", "t")],
    "loop_and_cycle": [("s", "a"), ("a", "b"), ("b", "a"), ("b", "b"), ("b", "t"), ("a", "t")],
    "two_sccs": [("s", "a"), ("a", "a"), ("a", "b"), ("b", "b"), ("b", "t")],
    "parallel_inter_scc": [("s", "a"), ("a", "b"), ("b", "a"), ("a", "c"), ("b", "c"), ("c", "d"), ("d", "c"), ("d", "t")],
    # a 3-node SCC with three edges into the same sink component (a walk leaves the SCC once: the bundle needs one walk per edge)
    "scc3_three_exits": [("s", "a"), ("a", "b"), ("b", "d"), ("d", "a"), ("a", "c"), ("b", "c"), ("d", "c")],
    # two entries into a node that carries a cycle, one exit (a walk may pass the SCC at that node without using an SCC edge)
    "two_entries_cycle_exit": [("s", "b"), ("r", "b"), ("b", "x"), ("x", "b"), ("b", "t")],
    "entry_two_returns": [("s", "a"), ("a", "b"), ("b", "a"), ("a", "c"), ("c", "a"), ("b", "t")],
    "dag_like": [("s", "a"), ("s", "b"), ("a", "t"), ("b", "t"), ("a", "b")],
    "multi_src_sink_cyc": [("s", "a"), ("r", "a"), ("a", "b"), ("b", "a"), ("b", "t"), ("b", "u")],
}


def digraphs(n_inner, rng: random.Random = None, limit=None, require_st_walk_edges=True):
    """Digraphs on s, inner nodes, t.  Exhaustive when ``limit`` is None, else a random sample."""
    inner = NODES[:n_inner]
    inner_pairs = [(u, v) for u in inner for v in inner]
    src = [("s", v) for v in inner]
    snk = [(v, "t") for v in inner]
    univ = src + snk + inner_pairs

    def ok(es):
        G = nx.DiGraph(es)
        if "s" not in G or "t" not in G:
            return False
        if set(G.nodes()) != {"s", "t", *inner}:
            return False
        if require_st_walk_edges:
            fw = nx.descendants(G, "s") | {"s"}
            bw = nx.ancestors(G, "t") | {"t"}
            for (u, v) in G.edges():
                if u not in fw or v not in bw:
                    return False
            # inner nodes must not be sources/sinks of the base graph (only s and t)
            for v in inner:
                if G.in_degree(v) == 0 or G.out_degree(v) == 0:
                    return False
        return True

    if limit is None:
        for r in range(1, len(univ) + 1):
            for sub in itertools.combinations(univ, r):
                if ok(sub):
                    yield list(sub)
    else:
        seen = set()
        tries = 0
        while len(seen) < limit and tries < limit * 200:
            tries += 1
            sub = tuple(e for e in univ if rng.random() < 0.45)
            if sub and sub not in seen and ok(sub):
                seen.add(sub)
                yield list(sub)


# --------------------------------------------------------------------------- routes / flows
def sources_sinks(G: nx.DiGraph, starts=(), ends=()):
    S = [v for v in G.nodes() if G.in_degree(v) == 0 or v in starts]
    T = [v for v in G.nodes() if G.out_degree(v) == 0 or v in ends]
    return S, T


def dag_routes(G: nx.DiGraph, starts=(), ends=()):
    """All admissible routes (node lists) of a DAG: source/declared start -> sink/declared end."""
    S, T = sources_sinks(G, starts, ends)
    Tset = set(T)
    out = []

    def rec(path):
        v = path[-1]
        if v in Tset:
            out.append(list(path))
        for w in G.successors(v):
            path.append(w)
            rec(path)
            path.pop()

    for s in S:
        rec([s])
    return out


def random_walk(G, rng, starts=(), ends=(), max_len=12):
    S, T = sources_sinks(G, starts, ends)
    for _ in range(50):
        v = rng.choice(S)
        walk = [v]
        while len(walk) < max_len:
            if v in T and (G.out_degree(v) == 0 or rng.random() < 0.35):
                return walk
            succ = list(G.successors(v))
            if not succ:
                break
            v = rng.choice(succ)
            walk.append(v)
        if walk[-1] in T:
            return walk
    return None


def covering_walks(G, rng, starts=(), ends=(), max_walks=3, tries=200):
    """A few random s-t walks that together cover every edge (or None)."""
    best = None
    for _ in range(tries):
        ws = []
        cov = set()
        for _ in range(max_walks):
            w = random_walk(G, rng, starts, ends)
            if w is None:
                break
            ws.append(w)
            cov |= set(zip(w[:-1], w[1:]))
            if cov == set(G.edges()):
                break
        if cov == set(G.edges()):
            if best is None or len(ws) < len(best):
                best = ws
    return best


def flow_from_routes(G, routes, weights):
    f = {e: 0 for e in G.edges()}
    for r, w in zip(routes, weights):
        for e in zip(r[:-1], r[1:]):
            f[e] += w
    return f


def dag_positive_flows(G, rng, n=2, weights=(1, 2, 3, 5), max_routes=3):
    """Conserving strictly positive flows = superpositions of <= max_routes routes covering all edges."""
    routes = dag_routes(G)
    out = []
    if not routes:
        return out
    E = set(G.edges())
    cands = []
    for r in range(1, max_routes + 1):
        for combo in itertools.combinations(range(len(routes)), r):
            cov = set()
            for c in combo:
                cov |= set(zip(routes[c][:-1], routes[c][1:]))
            if cov == E:
                cands.append(combo)
        if cands:
            break
    if not cands:
        # fall back: all routes
        cands = [tuple(range(len(routes)))]
    for _ in range(n):
        combo = rng.choice(cands)
        ws = [rng.choice(weights) for _ in combo]
        out.append(flow_from_routes(G, [routes[c] for c in combo], ws))
    return out


def node_set(edges):
    return sorted({x for e in edges for x in e[:2]})
