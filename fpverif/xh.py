"""XH -- running CrossHair on generated harness modules (DESIGN 2.4)."""
from __future__ import annotations

import ast
import importlib.util
import os
import re
import shutil
import subprocess
import sys
import tempfile
import time

ROOT = os.path.dirname(os.path.dirname(os.path.abspath(__file__)))
SCRATCH = os.path.join(ROOT, "scratch")

PRELUDE = '''import warnings; warnings.filterwarnings("ignore")
import logging; logging.disable(logging.CRITICAL)
import sys
sys.path.insert(0, %r)
''' % ROOT

# work-arounds for pybind11 objects under the CrossHair tracer (see DESIGN 2.4)
HX_WRAP = '''
import highspy as _hs
from crosshair.tracers import NoTracing as _NoTracing
_core = _hs.Highs.__mro__[1]
def _mk(orig):
    def w(self, *a, **k):
        with _NoTracing():
            return orig(self, *a, **k)
    return w
for _n in dir(_core):
    _o = getattr(_core, _n)
    if type(_o).__name__ == "instancemethod" and (not _n.startswith("__") or _n == "__init__"):
        try:
            setattr(_core, _n, _mk(_o))
        except Exception:
            pass
import crosshair.condition_parser as _cp
_orig_gcc = _cp.CompositeConditionParser.get_class_conditions
def _safe_gcc(self, cls):
    try:
        return _orig_gcc(self, cls)
    except TypeError:
        ret = _cp.ClassConditions([], {})
        self.class_cache[cls] = ret
        return ret
_cp.CompositeConditionParser.get_class_conditions = _safe_gcc
'''

_LINE = re.compile(r"^(?P<file>[^:]+):(?P<line>\d+): (?P<kind>error|info|warning): (?P<msg>.*)$")


def run_module(source: str, name: str, per_condition_timeout: int, wall_timeout: int = None, extra_env=None, only: str = None):
    """Write `source` to scratch/<name>.py and run `crosshair check --report_all` on it.
    Returns dict: {function_name: {"verdict": confirmed|counterexample|not_confirmed|no_precondition|error|timeout, "message": str}}, cpu seconds."""
    os.makedirs(SCRATCH, exist_ok=True)
    d = tempfile.mkdtemp(prefix="xh_", dir=SCRATCH)
    path = os.path.join(d, f"{name}.py")
    with open(path, "w") as f:
        f.write(source)
    # function line numbers
    tree = ast.parse(source)
    funcs = {}
    for node in tree.body:
        if isinstance(node, ast.FunctionDef) and ast.get_docstring(node) and "post:" in ast.get_docstring(node):
            funcs[node.name] = (node.lineno, node.end_lineno)
    env = dict(os.environ)
    env.update(extra_env or {})
    env["PYTHONDONTWRITEBYTECODE"] = "1"
    env["PYTHONWARNINGS"] = "ignore"
    target = path
    if only is not None:
        funcs = {only: funcs[only]}
        target = f"{path}:{funcs[only][0] + 1}"
    cmd = [sys.executable, "-W", "ignore", "-m", "crosshair", "check", "--report_all",
           "--per_condition_timeout", str(per_condition_timeout), target]
    t = time.time()
    out = {fn: {"verdict": "timeout", "message": ""} for fn in funcs}
    try:
        p = subprocess.run(cmd, capture_output=True, text=True, env=env,
                           timeout=wall_timeout or (per_condition_timeout * max(1, len(funcs)) * 2 + 120))
        text = p.stdout + "\n" + p.stderr
    except subprocess.TimeoutExpired as e:
        text = (e.stdout or b"").decode() if isinstance(e.stdout, bytes) else (e.stdout or "")
    cpu = time.time() - t
    for line in text.splitlines():
        m = _LINE.match(line.strip())
        if not m:
            continue
        ln = int(m.group("line"))
        fn = None
        for name_, (a, b) in funcs.items():
            if a <= ln <= b:
                fn = name_
        if fn is None:
            continue
        msg = m.group("msg")
        if m.group("kind") == "error":
            out[fn] = {"verdict": "counterexample", "message": msg}
        elif "Confirmed over all paths" in msg:
            if out[fn]["verdict"] != "counterexample":
                out[fn] = {"verdict": "confirmed", "message": msg}
        elif "Not confirmed" in msg:
            if out[fn]["verdict"] != "counterexample":
                out[fn] = {"verdict": "not_confirmed", "message": msg}
        elif "Unable to meet precondition" in msg:
            if out[fn]["verdict"] != "counterexample":
                out[fn] = {"verdict": "no_precondition", "message": msg}
    if all(v["verdict"] == "timeout" for v in out.values()) and "Traceback" in text:
        for fn in out:
            out[fn] = {"verdict": "error", "message": text[-1500:]}
    shutil.rmtree(d, ignore_errors=True)
    return out, cpu


_CALL = re.compile(r"when calling (?P<call>\w+\(.*\))(?: \(which|$)")


def parse_call(message: str):
    """'false when calling f(m=[1, 2]) (which returns False)' -> ('f', [], {'m': [1,2]})"""
    i = message.find("when calling ")
    if i < 0:
        return None
    rest = message[i + len("when calling "):]
    j = rest.find("(")
    if j < 0:
        return None
    fn = rest[:j].strip()
    # try every closing parenthesis, rightmost first, until the argument list parses
    for end in [p for p in range(len(rest) - 1, j, -1) if rest[p] == ")"]:
        args = rest[j + 1:end]
        try:
            node = ast.parse(f"f({args})", mode="eval").body
            if not isinstance(node, ast.Call):
                continue
            kw = {k.arg: ast.literal_eval(k.value) for k in node.keywords}
            pos = [ast.literal_eval(a) for a in node.args]
            return fn, pos, kw
        except Exception:
            continue
    return None


def call_concretely(source: str, name: str, fn: str, pos, kw):
    """import the harness module without CrossHair and evaluate fn(*pos, **kw)"""
    os.makedirs(SCRATCH, exist_ok=True)
    d = tempfile.mkdtemp(prefix="xr_", dir=SCRATCH)
    path = os.path.join(d, f"{name}.py")
    with open(path, "w") as f:
        f.write(source)
    try:
        spec = importlib.util.spec_from_file_location(f"_xh_replay_{name}", path)
        mod = importlib.util.module_from_spec(spec)
        spec.loader.exec_module(mod)
        return getattr(mod, fn)(*pos, **kw)
    finally:
        shutil.rmtree(d, ignore_errors=True)
