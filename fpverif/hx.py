"""HX -- the HiGHS boundary shim (DESIGN 2.1).

Everything flowpaths hands to HiGHS passes through ``HighsCustom.optimize``.  We
replace that method (from the harness process, no change to /repo) by a wrapper
which snapshots ``getLp()`` *before* the native solve and optionally replaces the
solver's answer (status / column values / objective) by one chosen by the
harness.  The snapshot is the "IR" that the rest of the machinery translates
to SMT; it is regenerated from the current /repo on every run.
"""
from __future__ import annotations

import contextlib
from fractions import Fraction

import highspy
import numpy as np

from flowpaths.utils import solverwrapper as sw

INF = highspy.kHighsInf


class LP:
    """Plain-python, picklable copy of a HighsLp (row-wise)."""

    __slots__ = (
        "ncol", "nrow", "is_int", "lb", "ub", "cost", "offset", "maximize",
        "rows", "row_lb", "row_ub", "col_names", "row_names",
        "honest_status", "honest_obj", "honest_vals", "owner", "tol",
    )

    def __init__(self):
        self.honest_status = None
        self.honest_obj = None
        self.honest_vals = None
        self.owner = None
        self.tol = 1e-9

    def __getstate__(self):
        return {k: getattr(self, k) for k in self.__slots__}

    def __setstate__(self, st):
        for k, v in st.items():
            setattr(self, k, v)

    # exact evaluation -----------------------------------------------------
    def row_value(self, i, vals):
        return sum((Fraction(c) * Fraction(vals[j]) for j, c in self.rows[i]), Fraction(0))

    def objective(self, vals):
        return sum((Fraction(c) * Fraction(vals[j]) for j, c in enumerate(self.cost) if c != 0), Fraction(self.offset))

    def violations(self, vals, eps=0.0):
        """Return list of violated bounds/rows (exact arithmetic, slack eps)."""
        out = []
        eps = Fraction(eps)
        for j in range(self.ncol):
            v = Fraction(vals[j])
            if self.lb[j] is not None and v < Fraction(self.lb[j]) - eps:
                out.append(("col_lb", j))
            if self.ub[j] is not None and v > Fraction(self.ub[j]) + eps:
                out.append(("col_ub", j))
            if self.is_int[j]:
                if abs(v - round(v)) > eps:
                    out.append(("int", j))
        for i in range(self.nrow):
            e = self.row_value(i, vals)
            if self.row_lb[i] is not None and e < Fraction(self.row_lb[i]) - eps:
                out.append(("row_lb", i))
            if self.row_ub[i] is not None and e > Fraction(self.row_ub[i]) + eps:
                out.append(("row_ub", i))
        return out


def snapshot(h) -> LP:
    lp = h.getLp()
    out = LP()
    n, m = lp.num_col_, lp.num_row_
    out.ncol, out.nrow = n, m
    integ = list(lp.integrality_)
    out.is_int = [len(integ) > j and integ[j] == highspy.HighsVarType.kInteger for j in range(n)]
    out.lb = [None if x <= -INF else float(x) for x in lp.col_lower_]
    out.ub = [None if x >= INF else float(x) for x in lp.col_upper_]
    out.cost = [float(x) for x in lp.col_cost_]
    out.offset = float(lp.offset_)
    out.maximize = lp.sense_ == highspy.ObjSense.kMaximize
    A = lp.a_matrix_
    st, idx, val = list(A.start_), list(A.index_), list(A.value_)
    rows = [[] for _ in range(m)]
    if m:
        if A.format_ == highspy.MatrixFormat.kRowwise:
            for i in range(m):
                rows[i] = [(int(idx[p]), float(val[p])) for p in range(st[i], st[i + 1])]
        else:  # column-wise (happens after a native solve): transpose
            for j in range(n):
                for p in range(st[j], st[j + 1]):
                    rows[int(idx[p])].append((j, float(val[p])))
    out.rows = rows
    out.row_lb = [None if x <= -INF else float(x) for x in lp.row_lower_]
    out.row_ub = [None if x >= INF else float(x) for x in lp.row_upper_]
    out.col_names = list(lp.col_names_)
    out.row_names = list(lp.row_names_)
    try:
        out.tol = float(h.getOptionValue("mip_feasibility_tolerance")[1])
    except Exception:
        out.tol = 1e-9
    return out


class _Status:
    def __init__(self, name):
        self.name = name

    def __eq__(self, o):
        return getattr(o, "name", o) == self.name

    def __repr__(self):
        return f"HighsModelStatus.{self.name}"


class Session:
    """Active interception.  ``snaps`` = LPs in call order.

    ``answers``: optional callable(call_index, lp, highs) -> None | dict with
    keys ``status`` (str), ``values`` (list), ``objective`` (number),
    ``skip_native`` (bool), or ``alarm`` (bool: honest native solve during which the
    wrapper's SIGALRM handler is invoked).  ``None`` means honest native solve.
    """

    def __init__(self, answers=None, keep_values=True):
        self.snaps = []
        self.answers = answers
        self.keep_values = keep_values
        self.calls = 0


_current: list = []
_orig_optimize = highspy.Highs.optimize


def _patched_optimize(self, *a, **k):
    if not _current:
        return _orig_optimize(self, *a, **k)
    sess: Session = _current[-1]
    lp = snapshot(self)
    idx = sess.calls
    sess.calls += 1
    sess.snaps.append(lp)
    # drop injected overrides from an earlier call on the same object
    for attr in ("getModelStatus", "allVariableValues", "getObjectiveValue"):
        self.__dict__.pop(attr, None)
    ans = sess.answers(idx, lp, self) if sess.answers else None
    ret = None
    if ans is None or not ans.get("skip_native", True):
        ret = _orig_optimize(self, *a, **k)
        lp.honest_status = highspy.Highs.getModelStatus(self).name
        if lp.honest_status == "kOptimal":
            lp.honest_obj = float(highspy.Highs.getObjectiveValue(self))
            if sess.keep_values:
                lp.honest_vals = [float(x) for x in highspy.Highs.allVariableValues(self)]
    if ans is not None and ans.get("alarm"):
        # environment event: the wrapper's custom SIGALRM timeout fires while the native solve is running
        # (delivered synchronously here; the native result stays what it honestly is)
        import signal as _signal
        hnd = _signal.getsignal(_signal.SIGALRM)
        if callable(hnd):
            hnd(_signal.SIGALRM, None)
        return ret
    if ans is not None:
        st = ans.get("status", "kOptimal")
        self.getModelStatus = lambda st=st: _Status(st)
        if "values" in ans:
            vals = list(ans["values"])
            self.allVariableValues = lambda vals=vals: vals
        if "objective" in ans:
            ob = ans["objective"]
            self.getObjectiveValue = lambda ob=ob: ob
    return ret


def install():
    sw.HighsCustom.optimize = _patched_optimize


@contextlib.contextmanager
def capture(answers=None, keep_values=True):
    install()
    s = Session(answers, keep_values)
    _current.append(s)
    try:
        yield s
    finally:
        _current.pop()


def snapshot_unsolved(solver_wrapper) -> LP:
    """Snapshot of a model that has not been optimised yet, with the queued bound
    updates applied exactly as ``SolverWrapper.optimize`` would apply them."""
    solver_wrapper._apply_pending_bound_updates()
    return snapshot(solver_wrapper.solver)
