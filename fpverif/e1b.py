"""E1b -- CrossHair on the real ``get_solution()`` of a twin model with *all* LP columns symbolic and the
captured LP as precondition (DESIGN 2.4 / 5).  Only integer models (CrossHair's float model is real-valued)."""
from __future__ import annotations

from . import xh

TEMPLATE = xh.PRELUDE + xh.HX_WRAP + '''
from typing import List
import networkx as nx
import flowpaths as fp
from fpverif import models, hx, checkers
from fpverif.props import c01, c02

TASK = @@TASK@@
_m, _G = models.construct(TASK)
_lp = hx.snapshot_unsolved(_m.solver)
_n = _lp.ncol
_rows = [([(j, int(c)) for j, c in r], None if lo is None else int(lo), None if up is None else int(up)) for r, lo, up in zip(_lp.rows, _lp.row_lb, _lp.row_ub)]
_lb = [int(x) for x in _lp.lb]
_ub = [int(x) for x in _lp.ub]
assert all(float(c).is_integer() for r in _lp.rows for _j, c in r), "non-integer LP data"
KEY = "walks" if TASK["cls"] in models.CYCLIC else "paths"
CHECK_FLOW = @@CF@@

def _feasible(vals: List[int]) -> bool:
    for j in range(_n):
        if not (_lb[j] <= vals[j] <= _ub[j]):
            return False
    for terms, lo, up in _rows:
        e = 0
        for j, c in terms:
            e += c * vals[j]
        if lo is not None and e < lo:
            return False
        if up is not None and e > up:
            return False
    return True

def _decode(vals):
    _m.solver.solver.allVariableValues = lambda: vals
    _m._is_solved = True
    _m._solution = None
    _m.edge_vars_sol = {}
    _m.get_solution()
    return _m._solution

def _ok(sol) -> bool:
    routes = sol[KEY]
    ws = sol.get("weights")
    if ws is not None and len(ws) != len(routes):
        return False
    if len(routes) != _m.k:
        return False
    for r in routes:
        if len(r) == 0:
            return False
        for v in r:
            if v not in _G:
                return False
        for u, v in zip(r[:-1], r[1:]):
            if not _G.has_edge(u, v):
                return False
        if _G.in_degree(r[0]) != 0 or _G.out_degree(r[-1]) != 0:
            return False
    if CHECK_FLOW:
        exp = {e: 0 for e in _G.edges()}
        for r, w in zip(routes, ws):
            if w < 0:
                return False
            for e in zip(r[:-1], r[1:]):
                exp[e] += w
        for (u, v) in _G.edges():
            if exp[(u, v)] != _G[u][v]["flow"]:
                return False
    return True

def check_decode(vals: List[int]) -> bool:
    """
    pre: len(vals) == _n
    pre: _feasible(vals)
    post: _
    """
    return _ok(_decode(vals))

def twin_reach(vals: List[int]) -> bool:
    """
    pre: len(vals) == _n
    pre: _feasible(vals)
    post: False
    """
    _decode(vals)
    return True
'''


def source(task, check_flow=True):
    return TEMPLATE.replace('@@TASK@@', repr(task)).replace('@@CF@@', repr(check_flow))
