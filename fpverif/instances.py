"""Shared instance generation on top of families.py: picklable task dictionaries."""
from __future__ import annotations

import itertools
import random

import networkx as nx

from . import families as F


def dag_graphs(tier, rng, quick_n=10, thorough_n5=40):
    out = [(name, es) for name, es in F.CURATED_DAGS.items()]
    small = list(F.all_dags(4))
    if tier == "quick":
        pick = rng.sample(small, min(quick_n, len(small)))
    else:
        pick = small
    out += [(f"dag{len(F.node_set(es))}_{i}", es) for i, es in enumerate(pick)]
    if tier != "quick":
        five = list(F.dag_edge_sets(5))
        out += [(f"dag5_{i}", es) for i, es in enumerate(rng.sample(five, thorough_n5))]
    return out


def digraphs(tier, rng, quick_n=8, thorough_n=60):
    out = [(name, es) for name, es in F.CURATED_DIGRAPHS.items()]
    n = quick_n if tier == "quick" else thorough_n
    out += [(f"dig2_{i}", es) for i, es in enumerate(F.digraphs(2, rng, limit=n // 2))]
    out += [(f"dig3_{i}", es) for i, es in enumerate(F.digraphs(3, rng, limit=n - n // 2))]
    return out


def with_flow(es, flow):
    return [(u, v, flow[(u, v)]) for (u, v) in es]


def dag_flow(es, rng, weights=(1, 2, 3, 5), max_routes=3):
    G = nx.DiGraph(es)
    fl = F.dag_positive_flows(G, rng, n=1, weights=weights, max_routes=max_routes)
    return fl[0] if fl else None


def walk_flow(es, rng, weights=(1, 2, 3), max_walks=3):
    """positive integer flow = superposition of covering s-t walks; returns (flow, walks, ws) or None."""
    G = nx.DiGraph(es)
    ws = F.covering_walks(G, rng, max_walks=max_walks)
    if ws is None:
        return None
    wts = [rng.choice(weights) for _ in ws]
    return F.flow_from_routes(G, ws, wts), ws, wts


def arbitrary_weights(es, rng, dom=(0, 1, 2, 3)):
    while True:
        w = {e: rng.choice(dom) for e in es}
        if any(w.values()):
            return w


def node_weights_from_routes(G, routes, weights):
    f = {v: 0 for v in G.nodes()}
    for r, w in zip(routes, weights):
        for v in r:
            f[v] += w
    return f


def contiguous_subpaths(es, maxlen=3):
    G = nx.DiGraph(es)
    out = []
    for (u, v) in G.edges():
        out.append([(u, v)])
        for w in G.successors(v):
            out.append([(u, v), (v, w)])
            if maxlen >= 3:
                for x in G.successors(w):
                    out.append([(u, v), (v, w), (w, x)])
    return out
