"""C09 -- minimum path/walk covers cover everything with fewest routes; width equals it."""
from __future__ import annotations

import copy
import random
import time

import networkx as nx
import z3

import flowpaths as fp
from .. import checkers, core, families as F, hx, instances as I, layers, models, smt, spec
from ..core import HarnessError, new_result
from . import c01

PID = "C09"
LEVEL = "model_checking"


def gen_tasks(tier, seed):
    rng = random.Random(seed + 9)
    tasks = []
    for name, es in I.dag_graphs(tier, rng, quick_n=10, thorough_n5=400):
        G = nx.DiGraph(es)
        inner = [v for v in G.nodes() if G.in_degree(v) > 0 and G.out_degree(v) > 0]
        base = {"name": name, "edges": es, "cyc": False, "starts": [], "ends": [], "ignored": [], "constraints": [], "node_mode": False}
        tasks.append({**base})
        tasks.append({**base, "node_mode": True})
        if len(es) > 1:
            e0 = rng.choice(es)
            tasks.append({**base, "ignored": [e0]})
            if len(es) > 2:
                e1 = rng.choice([e for e in es if e != e0])
                tasks.append({**base, "ignored": [e0, e1]})
        if inner:
            v, w = rng.choice(inner), rng.choice(inner)
            tasks.append({**base, "starts": [v], "ends": [w]})
            tasks.append({**base, "starts": [v]})
            tasks.append({**base, "ends": [w], "node_mode": True})
        sps = I.contiguous_subpaths(es, 3)
        tasks.append({**base, "constraints": [rng.choice(sps)]})
        # length coverage < 1: the constraint is only partly required, but every edge (also the constraint's) must still be covered;
        # one edge of the constraint short, the rest long -- every 2/3-edge constraint in turn
        for c_ in [c for c in sps if len(c) >= 2][: (4 if tier == "quick" else 12)]:
            for short in range(len(c_)):
                lens = [(u, v, (1 if (u, v) == tuple(c_[short]) else 5) if (u, v) in [tuple(e) for e in c_] else 1) for (u, v) in es]
                tasks.append({**base, "constraints": [c_], "cov_len": 0.8, "lengths": lens})
        if G.number_of_nodes() > 2:
            tasks.append({**base, "node_mode": True, "ignored": [rng.choice(list(G.nodes()))]})
    for name, es in I.digraphs(tier, rng, quick_n=10, thorough_n=250):
        G = nx.DiGraph(es)
        inner = [v for v in G.nodes() if G.in_degree(v) > 0 and G.out_degree(v) > 0]
        base = {"name": name, "edges": es, "cyc": True, "starts": [], "ends": [], "ignored": [], "constraints": [], "node_mode": False}
        tasks.append({**base})
        tasks.append({**base, "node_mode": True})
        if len(es) > 1:
            e0 = rng.choice(es)
            tasks.append({**base, "ignored": [e0]})
            e1 = rng.choice([e for e in es if e != e0])
            tasks.append({**base, "ignored": [e0, e1]})
            if name in F.CURATED_DIGRAPHS:
                # every single edge ignored in turn (the width with ignored edges inside a bundle between two SCCs)
                for ex in es:
                    if ex != e0:
                        tasks.append({**base, "ignored": [ex]})
                # an ignore list that names an edge twice denotes the same set
                for ex in es:
                    tasks.append({**base, "ignored": [ex, ex]})
                # a self loop ignored together with every edge at its node (the node's whole through-route is ignored)
                for (u_, v_) in es:
                    if u_ == v_:
                        grp = [e for e in es if u_ in e]
                        if len(grp) < len(es):
                            tasks.append({**base, "ignored": grp})
                            tasks.append({**base, "ignored": [(u_, u_)] + [e for e in grp if e != (u_, u_)][:1]})
        if inner:
            v, w = rng.choice(inner), rng.choice(inner)
            tasks.append({**base, "starts": [v], "ends": [w]})
        if len(es) >= 2:
            c = [list(e) for e in rng.sample(es, 2)]
            tasks.append({**base, "constraints": [c]})
    # graphs without a source or sink of their own: walks can only start / end at the declared additional nodes
    for name, es, st, en in (("pure_2cycle", [("a", "b"), ("b", "a")], ["a"], ["b"]), ("pure_2cycle_same", [("a", "b"), ("b", "a")], ["a"], ["a"]),
                             ("pure_3cycle", [("a", "b"), ("b", "c"), ("c", "a")], ["a"], ["c"]), ("cycle_with_tail_in", [("s", "a"), ("a", "b"), ("b", "a")], [], ["b"]),
                             ("cycle_with_tail_out", [("a", "b"), ("b", "a"), ("b", "t")], ["a"], [])):
        tasks.append({"name": name, "edges": es, "cyc": True, "starts": st, "ends": en, "ignored": [], "constraints": [], "node_mode": False})
        tasks.append({"name": name, "edges": es, "cyc": True, "starts": st, "ends": en, "ignored": [], "constraints": [], "node_mode": True})
    # a bottleneck edge that a single covering walk must cross more often than the graph has nodes:
    # s->a->b->t, b->c_i, every c_i->d_j, d_j->a  (p*q+1 crossings of (a,b), p+q+4 nodes, +2 synthetic) -- exercises the per-walk repetition bound
    for p, q in ([(2, 2), (3, 5)] if tier == "quick" else [(2, 2), (2, 3), (3, 3), (3, 4), (3, 5), (4, 4), (4, 5)]):
        es = [("s", "a"), ("a", "b"), ("b", "t")] + [("b", f"c{i}") for i in range(p)] + [(f"c{i}", f"d{j}") for i in range(p) for j in range(q)] + [(f"d{j}", "a") for j in range(q)]
        tasks.append({"name": f"bottleneck_bipartite_{p}x{q}", "edges": es, "cyc": True, "starts": [], "ends": [], "ignored": [], "constraints": [], "node_mode": False})
    for i, t in enumerate(tasks):
        t["tid"] = i
    return tasks


# --------------------------------------------------------------------------- spec
def elements(task, G):
    ign = {tuple(x) if not isinstance(x, str) else x for x in task["ignored"]}
    if task["node_mode"]:
        return [v for v in G.nodes() if v not in ign]
    return [e for e in G.edges() if e not in ign]


def spec_k(task, G, k, tag="S"):
    if task["cyc"]:
        sp = spec.WalkEuler(G, k, starts=task["starts"], ends=task["ends"], tag=tag, mult_max=max(2, G.number_of_nodes() * G.number_of_edges()))
        cons = list(sp.cons) + spec.cover(sp, elements(task, G))
        if task["constraints"]:
            cons += spec.subset_constraints_satisfied(sp, task["constraints"])
    else:
        sp = spec.RouteSpec(G, k, starts=task["starts"], ends=task["ends"], tag=tag)
        cons = list(sp.cons) + spec.cover(sp, elements(task, G))
        if task["constraints"]:
            if task.get("cov_len") is not None:
                cons += spec.constraints_satisfied(sp, task["constraints"], task["cov_len"], {(u, v): l for (u, v, l) in task["lengths"]})
            else:
                cons += spec.constraints_satisfied(sp, task["constraints"])
    return sp, cons


def reference_min_k(task, G, kmax):
    if not elements(task, G) and not task["constraints"]:
        return 0, None, False
    for k in range(1, kmax + 1):
        sp, cons = spec_k(task, G, k)
        s = smt.solver(60000)
        s.add(cons)
        r = smt.check(s)
        if r == "unknown":
            return None, None, True
        if r == "sat":
            rd = sp.read(s.model())[0]
            if task["cyc"]:
                rd = [[[e[0], e[1], c] for e, c in mm.items() if c] for mm in rd]
            return k, rd, False
    return None, None, False


def witness_ok(task, G, wit, k):
    if len(wit) != k:
        return False
    els = elements(task, G)
    covered = set()
    for r in wit:
        if task["cyc"]:
            M = nx.MultiDiGraph()
            for u, v, c in r:
                if not G.has_edge(u, v):
                    return False
                for _ in range(c):
                    M.add_edge(u, v)
            if M.number_of_edges() == 0:
                return False
            bal = {v: M.out_degree(v) - M.in_degree(v) for v in M.nodes()}
            st = [v for v, b in bal.items() if b == 1]
            en = [v for v, b in bal.items() if b == -1]
            if len(st) != 1 or len(en) != 1 or any(b not in (0, 1, -1) for b in bal.values()) or not nx.is_weakly_connected(M):
                return False
            S, T = F.sources_sinks(G, task["starts"], task["ends"])
            if st[0] not in S or en[0] not in T:
                return False
            covered |= set(M.nodes()) if task["node_mode"] else {(u, v) for u, v, _ in M.edges(keys=True)}
        else:
            if checkers.route_problems(G, r, task["starts"], task["ends"], simple=True):
                return False
            covered |= set(r) if task["node_mode"] else set(zip(r[:-1], r[1:]))
    return all(e in covered for e in els)


# --------------------------------------------------------------------------- real code
def _names(task):
    return ("kPathCoverCycles", "MinPathCoverCycles", "subset_constraints", "walks") if task["cyc"] else ("kPathCover", "MinPathCover", "subpath_constraints", "paths")


def _kwargs(task, k=None):
    kn, mn, ck, _ = _names(task)
    kw = {}
    if k is not None:
        kw["k"] = k
    if task["node_mode"]:
        kw["cover_type"] = "node"
    if task["ignored"]:
        kw["elements_to_ignore"] = task["ignored"]
    if task["starts"]:
        kw["additional_starts"] = task["starts"]
    if task["ends"]:
        kw["additional_ends"] = task["ends"]
    if task["constraints"]:
        kw[ck] = task["constraints"]
    if task.get("cov_len") is not None:
        kw["subpath_constraints_coverage_length"] = task["cov_len"]
        kw["length_attr"] = "length"
    return kw


def _medges(task):
    """edges as handed to the model: with a length attribute when the case uses length coverage"""
    if task.get("lengths"):
        return [(u, v, None, l) for (u, v, l) in task["lengths"]]
    return task["edges"]


def cover_problems(task, G, routes):
    els = elements(task, G)
    covered = set()
    pr = []
    for r in routes:
        pr += checkers.route_problems(G, r, task["starts"], task["ends"], simple=not task["cyc"]) if r else ["empty route"]
        covered |= set(r) if task["node_mode"] else set(zip(r[:-1], r[1:]))
    for e in els:
        if e not in covered:
            pr.append(f"element {e} is not covered")
    return pr


def run_task(task):
    res = new_result()
    kn, mn, ck, key = _names(task)
    res["functions"] = [f"{mn}.solve/get_lowerbound_k", f"{kn}.__init__/_encode_*cover", "stDAG.get_width/compute_max_edge_antichain", "stDiGraph.get_width", "graphutils.min_cost_flow"]
    res["evaluations"] = 1
    G = nx.DiGraph()
    G.add_edges_from(task["edges"])
    kmax = 5
    res["obligations"] += 1
    k_ref, wit, inc = reference_min_k(task, G, kmax)
    if inc:
        res["inconclusive"] += 1
        return res
    if k_ref is None:
        res["extra"]["no_reference_cover_within_kmax"] = 1
        return res
    res["discharged"] += 1
    res["nontrivial"] += 1 if k_ref >= 2 else 0
    desc = {k: task[k] for k in ("name", "edges", "cyc", "starts", "ends", "ignored", "constraints", "node_mode")}
    desc["k_ref"] = k_ref

    # (a) width of the s-t graph classes, edge mode, no constraints, convention: synthetic edges are passed as ignored
    if not task["node_mode"] and not task["constraints"] and k_ref >= 1:
        stG = (fp.stDiGraph if task["cyc"] else fp.stDAG)(G, additional_starts=task["starts"], additional_ends=task["ends"])
        ign = list(stG.source_sink_edges) + [tuple(e) for e in task["ignored"]]
        res["obligations"] += 1
        w = stG.get_width(edges_to_ignore=ign)
        res["samples"].append({"obligation": "get_width(ignored + synthetic edges) == least k with a satisfiable cover spec", "instance": desc, "width": w})
        if w == k_ref:
            res["discharged"] += 1
        else:
            res["violations"].append({"signature": f"{'stDiGraph' if task['cyc'] else 'stDAG'}.get_width:{'too-large' if w > k_ref else 'too-small'}",
                                      "summary": f"{task['name']}: width {w} != minimum cover {k_ref} (ignored={task['ignored']}, starts={task['starts']}, ends={task['ends']})",
                                      "replay": {"kind": "width", "task": task, "k_ref": k_ref, "witness": wit}})
        # repeated query / cache: no-ignore call first must not poison
        res["obligations"] += 1
        w0 = stG.get_width()
        w2 = stG.get_width(edges_to_ignore=ign)
        if w2 == w:
            res["discharged"] += 1
        else:
            res["violations"].append({"signature": "get_width:cache-dependent", "summary": f"{task['name']}: {w} then {w2}",
                                      "replay": {"kind": "width", "task": task, "k_ref": k_ref, "witness": wit}})

    # (b) k-cover models: LP_k feasible <=> k >= k_ref ; every answer of LP_k is a cover
    if k_ref >= 1:
        for k in sorted({max(1, k_ref - 1), k_ref, k_ref + 1}):
            kt = {"cls": kn, "edges": _medges(task), "kwargs": _kwargs(task, k), "name": task["name"], "starts": task["starts"], "ends": task["ends"], "node_mode": task["node_mode"]}
            try:
                with hx.capture() as sess:
                    km, _ = models.construct(kt)
                    ok = km.solve()
            except Exception as e:
                res["extra"]["kmodel_raised"] = res["extra"].get("kmodel_raised", 0) + 1
                res["extra"]["raised_kinds"] = [f"{kn}:{type(e).__name__}"]
                continue
            lp = sess.snaps[-1]
            res["extra"]["programs"] = res["extra"].get("programs", 0) + 1
            res["obligations"] += 1
            enc = smt.Enc(lp)
            s = enc.solver(60000)
            r = smt.check(s)
            want = "sat" if k >= k_ref else "unsat"
            if r == "unknown":
                res["inconclusive"] += 1
            elif r != want or (r == "sat") != bool(ok):
                res["violations"].append({"signature": f"{kn}:LP_k-{'infeasible-but-cover-exists' if want == 'sat' else 'feasible-below-minimum'}",
                                          "summary": f"{task['name']}: k={k}: LP {r}, solved={ok}, minimum cover={k_ref}",
                                          "replay": {"kind": "kmodel", "task": kt, "want": want, "wtask": task, "witness": wit, "k_ref": k_ref}})
                continue
            else:
                res["discharged"] += 1
            if r != "sat":
                continue
            # every optimal answer covers every non-ignored element
            s.add(c01._optimality(enc, lp))
            cols = models.edge_cols(km)
            unc = []
            for el in elements(task, G):
                ie = layers.internal_edge(el, task["node_mode"])
                unc.append(z3.And([enc.xs[cols[(ie[0], ie[1], i)]] == 0 for i in range(km.k)]))
            res["obligations"] += 1
            r2 = smt.check(s, z3.Or(unc)) if unc else "unsat"
            if r2 == "unsat":
                res["discharged"] += 1
            elif r2 == "unknown":
                res["inconclusive"] += 1
            else:
                vals = enc.values(s.model())
                res["violations"].append({"signature": f"{kn}:lp-admits-non-cover", "summary": f"{task['name']}: k={k}: a legal answer leaves an element uncovered",
                                          "replay": {"kind": "inject", "task": kt, "wtask": task, "values": [str(v) for v in vals]}})
            # honest output is a cover
            res["obligations"] += 1
            pr = cover_problems(task, G, [r_ for r_ in km.get_solution()[key]])
            if pr:
                res["violations"].append({"signature": f"{kn}:honest-output:{c01._classify(pr) if 'covered' not in pr[0] else 'uncovered'}", "summary": f"{task['name']}: k={k}: {pr[0]}",
                                          "replay": {"kind": "khonest", "task": kt, "wtask": task}})
            else:
                res["discharged"] += 1

    # (c) Min* wrappers
    mt = {"cls": mn, "edges": _medges(task), "kwargs": _kwargs(task), "name": task["name"], "starts": task["starts"], "ends": task["ends"], "node_mode": task["node_mode"]}
    try:
        with hx.capture() as sess:
            m, _ = models.construct(mt)
            lb = m.get_lowerbound_k()
            ok = m.solve()
    except Exception as e:
        res["extra"]["wrapper_raised"] = res["extra"].get("wrapper_raised", 0) + 1
        res["extra"]["raised_kinds"] = res["extra"].get("raised_kinds", []) + [f"{mn}:{type(e).__name__}"]
        if k_ref and k_ref >= 1:
            # a cover with k_ref routes exists (certified by the spec): the wrapper must solve, not raise
            res["obligations"] += 1
            res["violations"].append({"signature": f"{mn}:raises-{type(e).__name__}-although-cover-exists", "summary": f"{task['name']}: {type(e).__name__}: {str(e)[:140]} (a cover with {k_ref} routes exists: {wit})",
                                      "replay": {"kind": "wrapper_raises", "task": mt, "wtask": task}})
        return res
    statuses = [lp.honest_status for lp in sess.snaps]
    got = len(m.get_solution()[key]) if ok else None
    res["obligations"] += 1
    if k_ref == 0:
        res["discharged"] += 1
        return res
    res["samples"].append({"obligation": f"{mn}.solve() solved with the minimum number of routes", "instance": desc, "solved": ok, "returned": got, "lowerbound": lb, "lp_statuses": statuses})
    if ok and got == k_ref:
        res["discharged"] += 1
        # returned routes cover (in the caller's names)
        res["obligations"] += 1
        pr = cover_problems(task, G, m.get_solution()[key])
        if pr:
            res["violations"].append({"signature": f"{mn}:honest-output:{c01._classify(pr) if 'covered' not in pr[0] else 'uncovered'}", "summary": f"{task['name']}: {pr[0]}",
                                      "replay": {"kind": "whonest", "task": mt, "wtask": task}})
        else:
            res["discharged"] += 1
    else:
        nE = m.G.number_of_edges()
        if lb > k_ref:
            sig = "lower-bound-exceeds-optimum"
        elif not ok and k_ref >= nE and not any(s not in ("kInfeasible", "kOptimal") for s in statuses):
            sig = "search-range-ends-before-k=|E|"
        elif not ok:
            sig = "unsolved-although-cover-exists"
        elif got > k_ref:
            sig = "non-minimal"
        else:
            sig = "fewer-than-reference"
        res["violations"].append({"signature": f"{mn}:{sig}", "summary": f"{task['name']}: solved={ok} k={got}, minimum={k_ref}, lowerbound={lb}",
                                  "replay": {"kind": "wrapper", "task": mt, "wtask": task, "k_ref": k_ref, "witness": wit}})
    return res


def _replay_wrapper_raises(data):
    try:
        m, _ = models.construct(data["task"])
        m.get_lowerbound_k()
        m.solve()
    except Exception as e:
        print(f"  replay: {data['task']['cls']} raised {type(e).__name__}: {str(e)[:160]}")
        return True
    return False


def replay(data):
    if data.get("kind") == "wrapper_raises":
        return _replay_wrapper_raises(data)
    wtask = data.get("wtask", data["task"])
    G = nx.DiGraph()
    G.add_edges_from([tuple(e) for e in wtask["edges"]])
    kn, mn, ck, key = _names(wtask)
    if data["kind"] == "width":
        if not witness_ok(wtask, G, data["witness"], data["k_ref"]):
            print("  replay: witness rejected")
            return False
        stG = (fp.stDiGraph if wtask["cyc"] else fp.stDAG)(G, additional_starts=wtask["starts"], additional_ends=wtask["ends"])
        ign = list(stG.source_sink_edges) + [tuple(e) for e in wtask["ignored"]]
        w = stG.get_width(edges_to_ignore=ign)
        stG.get_width()
        w2 = stG.get_width(edges_to_ignore=ign)
        print(f"  replay: get_width={w} (again {w2}); cover with {data['k_ref']} routes: {data['witness']}")
        return w != data["k_ref"] or w2 != w
    if data["kind"] in ("wrapper",):
        if not witness_ok(wtask, G, data["witness"], data["k_ref"]):
            print("  replay: witness rejected")
            return False
        m, _ = models.construct(data["task"])
        ok = m.solve()
        got = len(m.get_solution()[key]) if ok else None
        print(f"  replay: {mn} solved={ok} k={got}; cover with {data['k_ref']} routes exists: {data['witness']}")
        return (not ok) or got > data["k_ref"]
    if data["kind"] == "kmodel":
        if data["want"] == "sat" and not witness_ok(wtask, G, data["witness"], data["k_ref"]):
            return False
        m, _ = models.construct(data["task"])
        ok = m.solve()
        print(f"  replay: {kn}(k={data['task']['kwargs']['k']}) solved={ok}; minimum cover = {data['k_ref']}")
        return bool(ok) != (data["want"] == "sat")
    if data["kind"] in ("khonest", "whonest"):
        m, _ = models.construct(data["task"])
        if not m.solve():
            return False
        pr = cover_problems(wtask, G, m.get_solution()[key])
        if pr:
            print("  replay:", pr[0])
        return bool(pr)
    if data["kind"] == "inject":
        from fractions import Fraction as Fr
        vals = [float(Fr(v)) for v in data["values"]]
        with hx.capture() as sess:
            m, _ = models.construct(data["task"])
            m.solve()
        if sess.snaps[-1].violations(vals, 1e-9):
            return False
        sol = c01._inject_and_decode(m, vals)
        pr = [p for p in cover_problems(wtask, G, [r for r in sol[key] if r]) if "covered" in p]
        if pr:
            print("  replay:", pr[0])
        return bool(pr)
    return False


RULE = ("one case = (graph, cover type edge/node, ignored elements, additional starts/ends, constraints); non-trivial = minimum cover >= 2; "
        "obligations: z3 certifies the reference minimum (k_ref sat, all smaller k unsat) on an independent spec; get_width, LP_k feasibility of the real k-cover models, "
        "'every optimal LP answer covers' and the Min* wrappers are compared with it")
ASSUMPTIONS = [
    "DAG spec: k enumerated source/start-to-sink/end routes; cyclic spec: k Euler multiplicity vectors (multiplicity <= |V|*|E|) with rank connectivity",
    "graph algorithms (network simplex, condensation) run concretely per enumerated graph; the solver decides non-existence of a smaller cover and LP feasibility",
    "DAGs <= 4 nodes (5 in thorough), digraphs <= 3 inner nodes, k <= 5",
]


def main(tier, seed):
    t0 = time.time()
    tasks = gen_tasks(tier, seed)
    acc = core.run_tasks(run_task, tasks, deadline_s=170 if tier == "quick" else 1500)
    bounds = {"dag_nodes_max": 4 if tier == "quick" else 5, "inner_nodes_max": 3, "k_max": 5}
    return core.finish(PID, tier, seed, LEVEL, acc, t0, RULE, ASSUMPTIONS, bounds, replay)
