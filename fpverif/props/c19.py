"""C19 -- invalid inputs are rejected with ValueError instead of being solved; valid ones are accepted.

CrossHair drives each constructor (+ solve) with symbolic k, coverage, two edge weights, an ignored-edge selector and a
structural-corruption selector.  The validity oracle (transcribed from the property / class documentation) is traced, so
every region of the oracle (and the boundary values singled out in the harness) is reached; the library call itself runs
concretely on the realised values.  Level: exploration (symbolic-input bug finding).
"""
from __future__ import annotations

import time

from .. import core, xh
from ..core import new_result

PID = "C19"
LEVEL = "exploration"

HARNESS = xh.PRELUDE + '''
from typing import List
import networkx as nx
import flowpaths as fp
from crosshair import realize
from crosshair.tracers import NoTracing

CLS = {cls!r}
CYC = {cyc!r}
KMODEL = {kmodel!r}
FLOWDEC = {flowdec!r}
COVER = {cover!r}
HAS_STARTS = {has_starts!r}
CKEY = "subset_constraints" if CYC else "subpath_constraints"
COVKEY = "subset_constraints_coverage" if CYC else "subpath_constraints_coverage"

if CYC:
    BASE = [("s", "a", 2), ("a", "b", 3), ("b", "a", 1), ("b", "t", 2)]
    SYM = [0, 3]
else:
    BASE = [("a", "b", 3), ("a", "c", 2), ("b", "d", 2), ("c", "d", 3), ("b", "c", 1)]
    SYM = [0, 3]

def _build(codes, corr):
    G = nx.DiGraph()
    for i, (u, v, f) in enumerate(BASE):
        c = f
        if i in SYM:
            c = codes[SYM.index(i)]
        if c == -2:
            G.add_edge(u, v)
        else:
            G.add_edge(u, v, flow=c)
    if corr == 1:
        G.add_edge(1, BASE[0][0], flow=1)
        G.add_edge(BASE[-1][1] if CYC else "d", 1, flow=1) if False else None
    if corr == 2:
        if CYC:
            G.add_edge("t", "s", flow=2)       # no source and no sink left
        else:
            G.add_edge("d", "a", flow=5)       # cycle in a DAG model
    return G

def _conserving(G, ignored):
    for v in G.nodes():
        if G.in_degree(v) == 0 or G.out_degree(v) == 0:
            continue
        i = 0
        o = 0
        for (a, b, d) in G.in_edges(v, data=True):
            if "flow" not in d:
                return False
            i += d["flow"]
        for (a, b, d) in G.out_edges(v, data=True):
            if "flow" not in d:
                return False
            o += d["flow"]
        if i != o:
            return False
    return True

def _call(k, covn, codes, ign, corr, wtc):
    """returns (outcome, solved) with outcome in 'ok' | 'ValueError' | other exception name"""
    G = _build(codes, corr)
    kw = {{}}
    if KMODEL:
        kw["k"] = k
    if not COVER:
        kw["weight_type"] = {{0: int, 1: float, 2: str}}[wtc]
    if corr == 9:
        kw["cover_type" if COVER else "flow_attr_origin"] = "vertex"
    ignored = []
    if ign >= 0:
        ignored = [(BASE[ign][0], BASE[ign][1])]
        kw["elements_to_ignore"] = ignored
    good_c = [(BASE[1][0], BASE[1][1])]
    if corr == 3:
        kw[CKEY] = [[("a", "zz")]]
    elif corr == 4:
        kw[CKEY] = [[]]
    elif corr == 5:
        kw[CKEY] = [["a", "b"]]
    elif corr == 10 or corr == 12:
        kw[CKEY] = [good_c]
    if corr in (3, 4, 5, 10, 12):
        kw[COVKEY] = covn / 4
    if corr == 12 and not CYC:
        kw["subpath_constraints_coverage_length"] = 1.0
        kw["length_attr"] = "len"
    if HAS_STARTS:
        if corr == 6:
            kw["additional_starts"] = ["nope"]
        elif corr == 7:
            kw["additional_ends"] = ["nope"]
        elif corr == 11:
            kw["additional_starts"] = ["b"]
            kw["additional_ends"] = ["a" if CYC else "c"]
    cls = getattr(fp, CLS)
    try:
        m = cls(G, **kw) if COVER else cls(G, "flow", **kw)
        ok = m.solve()
        solved = False
        try:
            solved = bool(m.is_solved())
        except Exception:
            solved = False
        return "ok", solved
    except ValueError:
        return "ValueError", False
    except Exception as e:
        return type(e).__name__, False

def _conc(x, lo, hi):
    """concrete python int equal to the (possibly symbolic) x, obtained by branching under tracing"""
    for j in range(lo, hi + 1):
        if x == j:
            return j
    return lo

def _verdict(k, covn, w0, w1, ign, corr, wtc):
    # ---- oracle (traced): which documented validity conditions are broken?
    invalid = False
    if corr == 1 or corr == 2 or corr == 3 or corr == 4 or corr == 5 or corr == 9:
        invalid = True
    if HAS_STARTS and (corr == 6 or corr == 7):
        invalid = True
    if KMODEL and k <= 0:
        invalid = True
    if k == 0 or k == 1:
        pass                                   # boundary values are singled out so that CrossHair realises them
    if (corr == 10 or corr == 12) and (covn <= 0 or covn > 4):
        invalid = True                          # coverage outside (0,1] -- also when a length coverage is given
    if corr == 12 and (not CYC) and covn < 4:
        invalid = True                          # documented: coverage and length coverage cannot both be set
    if covn == 0 or covn == 4 or covn == 5:
        pass
    if (not COVER) and wtc == 2:
        invalid = True
    codes = [w0, w1]
    ig = ign if ign >= 0 else -1
    for j in range(2):
        ignored_j = (ig == SYM[j])
        if not ignored_j and (not COVER) and codes[j] < 0:
            invalid = True                     # negative (-1) or missing (-2) weight on a non-ignored edge
        if codes[j] == -2 or codes[j] == 0:
            pass
    rk, rc, r0, r1, ri, rcorr, rw = _conc(k, -1, 2), _conc(covn, -1, 5), _conc(w0, -2, 3), _conc(w1, -2, 3), _conc(ign, -1, 1), _conc(corr, 0, 12), _conc(wtc, 0, 2)
    with NoTracing():
        G = _build([r0, r1], rcorr)
        if FLOWDEC and not invalid and ri < 0 and not COVER:
            if not _conserving(G, []):
                invalid = True                 # non-conserving flow for a flow decomposition without ignored edges
        some_weighted = COVER or any(("flow" in d and d["flow"] >= 0) for (a, b, d) in G.edges(data=True) if ri < 0 or (a, b) != (BASE[ri][0], BASE[ri][1]))
        outcome, solved = _call(rk, rc, [r0, r1], ri, rcorr, rw)
    if invalid:
        return outcome == "ValueError" and not solved
    if not some_weighted:
        return True
    return outcome == "ok"

def check_numeric(k: int, covn: int, w0: int, with_constraint: bool, wtc: int) -> bool:
    """
    pre: -1 <= k <= 2
    pre: -1 <= covn <= 5
    pre: -2 <= w0 <= 3
    pre: 0 <= wtc <= 2
    post: _
    """
    return _verdict(k, covn, w0, 3, -1, 10 if with_constraint else 0, wtc)

def check_ignore(ign: int, w0: int, w1: int) -> bool:
    """
    pre: -1 <= ign <= 1
    pre: -2 <= w0 <= 3 and -2 <= w1 <= 3
    post: _
    """
    return _verdict(1, 4, w0, w1, ign, 0, 0)

def check_structural(corr: int, k: int, w0: int, covn: int) -> bool:
    """
    pre: 0 <= corr <= 12
    pre: -1 <= k <= 2
    pre: -2 <= w0 <= 3
    pre: 3 <= covn <= 5
    post: _
    """
    return _verdict(k, covn, w0, 3, -1, corr, 0)

def check(k: int, covn: int, w0: int, w1: int, ign: int, corr: int, wtc: int) -> bool:
    return _verdict(k, covn, w0, w1, ign, corr, wtc)

def check_node_valid(w0: int, w1: int, ign: int, opt: int) -> bool:
    """
    pre: -2 <= w0 <= 3 and -2 <= w1 <= 3
    pre: -1 <= ign <= 1
    pre: 0 <= opt <= 8
    post: _
    """
    # node-weighted input of the same graph: the converse direction (documented options on valid input are accepted) and
    # negative node weights. A node without the attribute counts as ignored (documented), so only -1 is invalid.
    invalid = False
    for j in range(2):
        c = w0 if j == 0 else w1
        if c == -1 and ign != j and not (opt == 8 and j == 0):      # opt 8: error scale 0 on the first symbolic node = ignored (documented)
            invalid = True
        if c == -2 or c == 0:
            pass
    r0, r1, ri, ro = _conc(w0, -2, 3), _conc(w1, -2, 3), _conc(ign, -1, 1), _conc(opt, 0, 8)
    with NoTracing():
        G = nx.DiGraph()
        G.add_edges_from([(u, v) for (u, v, _f) in BASE])
        names = sorted(G.nodes())
        sym = [names[0], names[-1]]
        for v in G.nodes():
            G.nodes[v]["flow"] = 3
        for j, c in enumerate([r0, r1]):
            if c == -2:
                del G.nodes[sym[j]]["flow"]
            else:
                G.nodes[sym[j]]["flow"] = c
        kw = dict(weight_type=int, flow_attr_origin="node")
        if KMODEL:
            kw["k"] = 2
        if ri >= 0:
            kw["elements_to_ignore"] = [sym[ri]]
        inner = [v for v in names if G.in_degree(v) > 0 and G.out_degree(v) > 0]
        if ro == 1 and HAS_STARTS:
            kw["additional_starts"] = [inner[0]]
            kw["additional_ends"] = [inner[-1]]
        elif ro == 2:
            kw["error_scaling"] = dict([(inner[0], 0.5)])
        elif ro == 3 and CLS == "kMinPathErrorCycles" and ri < 0:
            kw["elements_to_ignore_percentile"] = 30
        elif ro == 4:
            kw[CKEY] = [[inner[0]]]
        elif ro == 8:
            kw["error_scaling"] = dict([(sym[0], 0)])
        elif ro == 5:
            kw[CKEY] = [[]]                                   # malformed: empty constraint
        elif ro == 6 and HAS_STARTS:
            kw["additional_starts"] = [(names[0], inner[0])]   # malformed: an edge where a node is expected
        elif ro == 7 and HAS_STARTS:
            kw["additional_ends"] = ["nope"]                   # unknown node
        try:
            m = getattr(fp, CLS)(G, "flow", **kw)
            m.solve()
            outcome = "ok"
        except ValueError:
            outcome = "ValueError"
        except Exception as e:
            outcome = type(e).__name__
    if ro == 5 or (HAS_STARTS and (ro == 6 or ro == 7)):
        invalid = True
    if invalid and ro == 3 and CLS == "kMinPathErrorCycles" and ri < 0:
        return True        # a negative weight below the percentile is itself ignored by the percentile rule: no claim
    if invalid:
        return outcome == "ValueError"
    return outcome == "ok"

def check_conservation_options(d: int, greedy: int, flowsafe: int, safepaths: int) -> bool:
    """
    pre: -1 <= d <= 1
    pre: 0 <= greedy <= 1 and 0 <= flowsafe <= 1 and 0 <= safepaths <= 1
    post: _
    """
    # a non-conserving flow must be rejected whatever optimisation options are switched on or off
    dd, g_, f_, s_ = _conc(d, -1, 1), _conc(greedy, 0, 1), _conc(flowsafe, 0, 1), _conc(safepaths, 0, 1)
    if d == 0:
        pass
    with NoTracing():
        G = nx.DiGraph()
        # node a: in 5, out (4 + d) + 1 -> conserving iff d == 0
        G.add_edge("s", "a", flow=5); G.add_edge("a", "b", flow=4 + dd); G.add_edge("a", "c", flow=1); G.add_edge("b", "t", flow=4 + dd); G.add_edge("c", "t", flow=1)
        kw = dict(weight_type=int, optimization_options=dict([("optimize_with_greedy", bool(g_)), ("optimize_with_flow_safe_paths", bool(f_)), ("optimize_with_safe_paths", bool(s_) and not f_)]))
        if KMODEL:
            kw["k"] = 2
        try:
            m = getattr(fp, CLS)(G, "flow", **kw)
            m.solve()
            outcome = "ok"
        except ValueError:
            outcome = "ValueError"
        except Exception as e:
            outcome = type(e).__name__
    if dd != 0:
        return outcome == "ValueError"
    return outcome == "ok"

def check_k_given_weights(k: int) -> bool:
    """
    pre: -2 <= k <= 2
    post: _
    """
    # non-positive k must be rejected also when solution_weights_superset is given (the model then works with
    # len(superset) layers internally, but k is still the caller's bound on the number of paths)
    kk = _conc(k, -2, 2)
    if k <= 0:
        pass
    with NoTracing():
        G = _build([3, 3], 0)
        try:
            m = getattr(fp, CLS)(G, "flow", k=kk, weight_type=int, solution_weights_superset=[3, 2, 1])
            m.solve()
            outcome = "ok"
        except ValueError:
            outcome = "ValueError"
        except Exception as e:
            outcome = type(e).__name__
    if kk <= 0:
        return outcome == "ValueError"
    return outcome == "ok"

BIG = [1, 1000, 3000000000, 2 ** 45]

def check_magnitude(scale: int, d: int, where: int, asfloat: int) -> bool:
    """
    pre: 0 <= scale <= 3
    pre: -1 <= d <= 1
    pre: 0 <= where <= 1
    pre: 0 <= asfloat <= 1
    post: _
    """
    # conservation must be decided exactly at every magnitude: path s->a->b->t with flow B everywhere except B+d on one edge
    sc, dd, wh, af = _conc(scale, 0, 3), _conc(d, -1, 1), _conc(where, 0, 1), _conc(asfloat, 0, 1)
    if d == 0:
        pass
    with NoTracing():
        B = BIG[sc] + (1 if dd < 0 else 0)
        fl = [B, B, B]
        fl[1 + wh] = B + dd
        if af:
            fl = [float(x) for x in fl]
        G = nx.DiGraph()
        G.add_edge("s", "a", flow=fl[0]); G.add_edge("a", "b", flow=fl[1]); G.add_edge("b", "t", flow=fl[2])
        kw = dict(weight_type=float if af else int)
        if KMODEL:
            kw["k"] = 1
        try:
            m = getattr(fp, CLS)(G, "flow", **kw)
            m.solve()
            outcome = "ok"
        except ValueError:
            outcome = "ValueError"
        except Exception as e:
            outcome = type(e).__name__
    if dd != 0:
        return outcome == "ValueError"
    return outcome != "ValueError"

def check_reuse(steps: List[int]) -> bool:
    """
    pre: len(steps) == 3
    pre: all(0 <= s <= 1 for s in steps)
    post: _
    """
    # the same graph object is edited in place between constructions: 1 = add the offending edge (cycle for DAG models /
    # back edge t->s that removes every source and sink for cyclic models), 0 = remove it again
    st = [_conc(s, 0, 1) for s in steps]
    with NoTracing():
        G = _build([3, 3] if not CYC else [2, 2], 0)
        bad_edge = ("t", "s") if CYC else ("d", "a")
        kw = dict()
        if KMODEL:
            kw["k"] = 2
        if not COVER:
            kw["weight_type"] = int
        cls = getattr(fp, CLS)
        for s in st:
            if s == 1 and not G.has_edge(*bad_edge):
                G.add_edge(bad_edge[0], bad_edge[1], flow=2 if CYC else 5)
            if s == 0 and G.has_edge(*bad_edge):
                G.remove_edge(*bad_edge)
            try:
                m = cls(G, **kw) if COVER else cls(G, "flow", **kw)
                m.solve()
                outcome = "ok"
            except ValueError:
                outcome = "ValueError"
            except Exception as e:
                outcome = type(e).__name__
            if outcome != ("ValueError" if s == 1 else "ok"):
                return False
    return True

check(1, 4, 3, 3, -1, 0, 0)
'''

CLASSES = {
    "kFlowDecomp": dict(cyc=False, kmodel=True, flowdec=True, cover=False, has_starts=False),
    "MinFlowDecomp": dict(cyc=False, kmodel=False, flowdec=True, cover=False, has_starts=False),
    "kLeastAbsErrors": dict(cyc=False, kmodel=True, flowdec=False, cover=False, has_starts=True),
    "kMinPathError": dict(cyc=False, kmodel=True, flowdec=False, cover=False, has_starts=True),
    "kPathCover": dict(cyc=False, kmodel=True, flowdec=False, cover=True, has_starts=True),
    "MinPathCover": dict(cyc=False, kmodel=False, flowdec=False, cover=True, has_starts=True),
    "kFlowDecompCycles": dict(cyc=True, kmodel=True, flowdec=False, cover=False, has_starts=True),   # conservation is not among its documented checks
    "MinFlowDecompCycles": dict(cyc=True, kmodel=False, flowdec=True, cover=False, has_starts=False),
    "kLeastAbsErrorsCycles": dict(cyc=True, kmodel=True, flowdec=False, cover=False, has_starts=True),
    "kMinPathErrorCycles": dict(cyc=True, kmodel=True, flowdec=False, cover=False, has_starts=True),
    "kPathCoverCycles": dict(cyc=True, kmodel=True, flowdec=False, cover=True, has_starts=True),
    "MinPathCoverCycles": dict(cyc=True, kmodel=False, flowdec=False, cover=True, has_starts=True),
}


def gen_tasks(tier, seed):
    tasks = [{"cls": c, "fn": fn, **v} for fn in ("check_structural", "check_numeric", "check_ignore", "check_reuse") for c, v in CLASSES.items()]
    tasks += [{"cls": c, "fn": "check_magnitude", **v} for c, v in CLASSES.items() if v["flowdec"]]
    tasks += [{"cls": c, "fn": "check_k_given_weights", **v} for c, v in CLASSES.items() if c in ("kFlowDecomp", "kLeastAbsErrors", "kMinPathError")]
    tasks += [{"cls": c, "fn": "check_conservation_options", **v} for c, v in CLASSES.items() if v["flowdec"] and not v["cyc"]]
    tasks += [{"cls": c, "fn": "check_node_valid", **v} for c, v in CLASSES.items() if c in ("kLeastAbsErrors", "kMinPathError", "kLeastAbsErrorsCycles", "kMinPathErrorCycles")]
    for i, t in enumerate(tasks):
        t["tid"] = i
    return tasks


def _src(task):
    return HARNESS.format(cls=task["cls"], cyc=task["cyc"], kmodel=task["kmodel"], flowdec=task["flowdec"], cover=task["cover"], has_starts=task["has_starts"])


def run_task(task):
    res = new_result()
    cls = task["cls"]
    res["functions"] = [f"{cls}.__init__ + solve", "AbstractSourceSinkGraph.__init__", "stDAG._pre_build_validate / stDiGraph._post_build", "_check_valid_subpath_constraints/_check_valid_subset_constraints",
                        "get_max_flow_value_and_check_non_negative_flow", "graphutils.check_flow_conservation"]
    # collect up to 6 distinct counterexamples by excluding the corruption kinds already found
    out, cpu = xh.run_module(_src(task), f"c19_{task['tid']}", per_condition_timeout=task.get("timeout", 120), only=task["fn"])
    res["solver_s"] += cpu
    for fn in (task["fn"],):
        v = out.get(fn, {"verdict": "error", "message": "no output"})
        res["obligations"] += 1
        res["queries"] += 1
        res["nontrivial"] += 1
        res["samples"].append({"harness": f"{cls}.{fn}: symbolic k, coverage/4, edge-weight codes (-2 missing, -1 negative), ignored-edge selector, weight type / corruption selector 0..11", "verdict": v["verdict"], "cpu_s": round(cpu, 1)})
        if v["verdict"] == "counterexample":
            call = xh.parse_call(v["message"])
            call = _normalise(call)
            res["violations"].append({"signature": f"{cls}:{_diag(task, call)}", "summary": f"{v['message'][:230]}", "replay": {"task": task, "call": call}})
        elif v["verdict"] == "confirmed":
            res["discharged"] += 1
        elif v["verdict"] == "error":
            res["harness_errors"].append(f"crosshair failed on {cls}.{fn}: {v['message'][-800:]}")
        else:
            res["inconclusive"] += 1          # "Not confirmed": all explored regions behaved; not a proof
            res["extra"]["not_confirmed_harnesses"] = [f"{cls}.{fn}"]
    res["evaluations"] = 1
    return res


def _normalise(call):
    """map the arguments of check_numeric / check_structural onto check(k, covn, w0, w1, ign, corr, wtc)"""
    if not call:
        return call
    fn, pos, kw = call
    if fn == "check_numeric":
        k, covn, w0, wc, wtc = pos
        return ("check", [k, covn, w0, 3, -1, 10 if wc else 0, wtc], {})
    if fn == "check_ignore":
        ign, w0, w1 = pos
        return ("check", [1, 4, w0, w1, ign, 0, 0], {})
    if fn == "check_reuse":
        return ("check_reuse", list(pos), {})
    if fn in ("check_magnitude", "check_node_valid", "check_conservation_options", "check_k_given_weights"):
        return (fn, list(pos), dict(kw))
    if fn == "check_structural":
        corr, k, w0, covn = pos
        return ("check", [k, covn, w0, 3, -1, corr, 0], {})
    return call


def _diag(task, call):
    if not call:
        return "counterexample"
    fn, pos, kw = call
    if fn == "check_reuse":
        return "graph-object-reused-after-in-place-edit"
    if fn == "check_magnitude":
        return "conservation-not-decided-exactly-at-large-magnitude"
    if fn == "check_k_given_weights":
        return "non-positive-k-accepted-with-solution_weights_superset" if (pos and pos[0] <= 0) else "valid-k-rejected-with-solution_weights_superset"
    if fn == "check_conservation_options":
        return "non-conserving-flow-accepted-under-some-option-setting" if (pos and pos[0] != 0) else "conserving-flow-rejected-under-some-option-setting"
    if fn == "check_node_valid":
        a = dict(zip(["w0", "w1", "ign", "opt"], pos)); a.update(kw)
        neg = (a["w0"] == -1 and a["ign"] != 0) or (a["w1"] == -1 and a["ign"] != 1)
        if a["opt"] == 8:
            return "node-mode:valid-input-rejected:error-scale-0-node" if not ((a["w1"] == -1 and a["ign"] != 1)) else "node-mode:negative-node-weight->ok"
        if a["opt"] >= 5 and not neg:
            return "node-mode:malformed-input-not-rejected-with-ValueError:" + ["empty-constraint", "edge-as-additional-start", "unknown-additional-end"][a["opt"] - 5]
        return ("node-mode:negative-node-weight->ok" if neg else "node-mode:valid-input-rejected:" + ["plain", "starts-ends", "error_scaling", "percentile", "constraint", "empty-constraint->not-ValueError", "edge-as-start->not-ValueError", "unknown-end->not-ValueError", "error-scale-0-on-negative-node"][a["opt"]])
    names = ["k", "covn", "w0", "w1", "ign", "corr", "wtc"]
    a = dict(zip(names, pos))
    a.update(kw)
    try:
        import importlib.util, os, tempfile, shutil
        os.makedirs(xh.SCRATCH, exist_ok=True)
        d = tempfile.mkdtemp(prefix="c19_", dir=xh.SCRATCH)
        p = os.path.join(d, "h.py")
        open(p, "w").write(_src(task))
        sp = importlib.util.spec_from_file_location("_c19diag", p)
        mod = importlib.util.module_from_spec(sp)
        sp.loader.exec_module(mod)
        outcome, solved = mod._call(a["k"], a["covn"], [a["w0"], a["w1"]], a["ign"], a["corr"], a["wtc"])
        shutil.rmtree(d, ignore_errors=True)
    except Exception as e:
        return f"counterexample({type(e).__name__})"
    why = []
    if a["corr"] in (1, 2, 3, 4, 5, 6, 7, 9):
        why.append({1: "non-string-node", 2: "cycle-in-DAG-model" if not task["cyc"] else "no-source-or-sink", 3: "constraint-with-absent-edge", 4: "empty-constraint", 5: "non-tuple-constraint",
                    6: "unknown-additional-start", 7: "unknown-additional-end", 9: "unsupported-origin"}[a["corr"]])
    if task["kmodel"] and a["k"] <= 0:
        why.append("non-positive-k")
    if a["corr"] in (10, 12) and (a["covn"] <= 0 or a["covn"] > 4):
        why.append("coverage-outside-(0,1]")
    if not task["cover"] and a["wtc"] == 2:
        why.append("unsupported-weight-type")
    if not task["cover"] and (a["w0"] < 0 or a["w1"] < 0):
        why.append("negative-or-missing-weight")
    if not why:
        why.append("valid-or-nonconserving-input")
    return "+".join(why[:2]) + f"->{outcome}" + ("/solved" if solved else "")


def replay(data):
    task = data["task"]
    call = data.get("call")
    if not call:
        return False
    fn, pos, kw = call
    r = xh.call_concretely(_src(task), "c19_replay", fn, pos, kw)
    print(f"  replay: {task['cls']}: {fn}({pos},{kw}) -> {r}  [{_diag(task, call)}]")
    return r is False


RULE = ("one case = one class; CrossHair explores the regions of the documented-validity oracle over (k, coverage, two edge weights incl. negative/missing, ignored edge, 12 structural variants, weight type); "
        "non-trivial = all; a harness that is 'Not confirmed' is counted inconclusive")
ASSUMPTIONS = [
    "oracle transcribed from the property statement and the class docstrings: non-string node, cycle in a DAG model / no source or sink for a cyclic model, negative or missing weight on a non-ignored edge, non-conserving flow for flow decomposition without ignored edges, constraint naming an absent edge / empty / not made of tuples, coverage outside (0,1], k <= 0, unsupported weight type or origin, unknown additional start/end",
    "the constructor and solve() run concretely on the values CrossHair realises for each oracle region; branches inside the library are not traced (networkx / HiGHS)",
    "one fixed 5-edge DAG and one fixed 4-edge cyclic graph; bug-finding level: only counterexamples are verdicts",
]


def main(tier, seed):
    t0 = time.time()
    tasks = gen_tasks(tier, seed)
    for t in tasks:
        t["timeout"] = 90 if tier == "quick" else 600
    acc = core.run_tasks(run_task, tasks, deadline_s=175 if tier == "quick" else 2000)
    acc["evaluations"] = max(acc["evaluations"], len(tasks))
    bounds = {"k": "-1..2", "coverage": "{-1..5}/4", "weight_codes": "-2..3", "structural_variants": 13}
    return core.finish(PID, tier, seed, LEVEL, acc, t0, RULE, ASSUMPTIONS, bounds, replay)
