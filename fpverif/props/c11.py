"""C11 -- node-weighted solving equals solving the explicitly node-expanded instance."""
from __future__ import annotations

import random
import time
from fractions import Fraction

import networkx as nx

from .. import checkers, core, families as F, hx, instances as I, models, smt, xh
from ..core import HarnessError, new_result
from . import c09

PID = "C11"
LEVEL = "translation_validation"

NODE_CLASSES_DAG = ["kFlowDecomp", "MinFlowDecomp", "kLeastAbsErrors", "kMinPathError", "kPathCover", "MinPathCover"]
NODE_CLASSES_CYC = ["kFlowDecompCycles", "MinFlowDecompCycles", "kLeastAbsErrorsCycles", "kMinPathErrorCycles", "kPathCoverCycles", "MinPathCoverCycles"]

KERNEL = xh.PRELUDE + '''
from typing import List, Tuple
import networkx as nx
from flowpaths.nodeexpandeddigraph import NodeExpandedDiGraph
from crosshair.tracers import NoTracing

ALPH = ["a", "a.b", "c.0"]         # a name that ends in '.0' and a dotted name whose prefix is another node must survive the round trip
_G = nx.DiGraph()
for _u in ALPH:
    for _v in ALPH:
        _G.add_edge(_u, _v)
for _i, _v in enumerate(ALPH):
    if _i != 1:
        _G.nodes[_v]["flow"] = _i + 1      # node 'a.b' has no attribute -> its expanded edge is ignored
_N = NodeExpandedDiGraph(_G, node_flow_attr="flow")
_single = nx.DiGraph()
_single.add_node("x", flow=3)
_NS = NodeExpandedDiGraph(_single, node_flow_attr="flow")

def _expand(p):
    out = []
    for v in p:
        out += [v + ".0", v + ".1"]
    return out

def roundtrip_nodes(idx: List[int]) -> bool:
    """
    pre: len(idx) <= 4
    pre: all(0 <= i < 3 for i in idx)
    post: _
    """
    p = [ALPH[i] for i in idx]
    try:
        return _N.get_condensed_paths([_expand(p)]) == [p]
    except Exception:       # a valid expanded path must be translated, not rejected
        return False

def roundtrip_two_paths(idx: List[int], cut: int) -> bool:
    """
    pre: len(idx) <= 4
    pre: all(0 <= i < 3 for i in idx)
    pre: 0 <= cut <= len(idx)
    post: _
    """
    p, q = [ALPH[i] for i in idx[:cut]], [ALPH[i] for i in idx[cut:]]
    try:
        return _N.get_condensed_paths([_expand(p), _expand(q)]) == [p, q]
    except Exception:
        return False

def expanded_elements(i: int, j: int) -> bool:
    """
    pre: 0 <= i < 3 and 0 <= j < 3
    post: _
    """
    u, v = ALPH[i], ALPH[j]
    ok = _N.get_expanded_edge(u) == (u + ".0", u + ".1")
    ok = ok and _N.get_expanded_edge((u, v)) == (u + ".1", v + ".0")
    ok = ok and _N.has_edge(u + ".0", u + ".1") and _N.has_edge(u + ".1", v + ".0")
    ok = ok and _N.get_expanded_additional_starts([u]) == [u + ".0"] and _N.get_expanded_additional_ends([v]) == [v + ".1"]
    return ok

def constraints_nodes(idx: List[int]) -> bool:
    """
    pre: 1 <= len(idx) <= 3
    pre: all(0 <= i < 3 for i in idx)
    post: _
    """
    c = [ALPH[i] for i in idx]
    got = _N.get_expanded_subpath_constraints([c])
    return got == [[(v + ".0", v + ".1") for v in c]]

def constraints_edges(idx: List[int]) -> bool:
    """
    pre: 2 <= len(idx) <= 4
    pre: all(0 <= i < 3 for i in idx)
    post: _
    """
    p = [ALPH[i] for i in idx]
    c = list(zip(p[:-1], p[1:]))
    got = _N.get_expanded_subpath_constraints([c])[0]
    # every expanded element is an edge of the expanded graph, and condensing the node sequence they span gives p back
    if not all(_N.has_edge(a, b) for (a, b) in got):
        return False
    want = []
    for (u, v) in c:
        want += [(u + ".0", u + ".1"), (u + ".1", v + ".0")]
    want.append((p[-1] + ".0", p[-1] + ".1"))
    # consecutive constraint edges share nodes: u.0-u.1 is listed once per constraint edge start
    return got == want

def ignored_without_attribute(i: int) -> bool:
    """
    pre: 0 <= i < 3
    post: _
    """
    v = ALPH[i]
    e = (v + ".0", v + ".1")
    return (e in _N.edges_to_ignore) == ("flow" not in _G.nodes[v]) and all((u + ".1", v + ".0") in _N.edges_to_ignore for u in ALPH)

def single_node() -> bool:
    """
    post: _
    """
    return _NS.get_condensed_paths([["x.0", "x.1"]]) == [["x"]] and _NS.get_condensed_paths([[]]) == [[]] and list(_NS.edges()) == [("x.0", "x.1")]

roundtrip_nodes([0, 1]); constraints_edges([0, 1])
'''


def gen_tasks(tier, seed):
    rng = random.Random(seed + 11)
    tasks = [{"kind": "kernel"}]
    for name, es in I.dag_graphs(tier, rng, quick_n=6, thorough_n5=30):
        G = nx.DiGraph(es)
        routes = F.dag_routes(G)
        ws = [rng.choice((1, 2, 3)) for _ in routes[:3]]
        nf_flow = I.node_weights_from_routes(G, routes[:3], ws)
        nf_arb = {v: rng.choice((0, 1, 2, 3)) for v in G.nodes()}
        if not any(nf_arb.values()):
            nf_arb[list(G.nodes())[0]] = 2
        inner = [v for v in G.nodes() if G.in_degree(v) > 0 and G.out_degree(v) > 0]
        k = min(3, len(routes))
        for cls in NODE_CLASSES_DAG:
            base = {"kind": "model", "name": name, "cls": cls, "edges": es, "cyc": False, "starts": [], "ends": [], "ignored": [], "constraints": []}
            flowy = cls in ("kFlowDecomp", "MinFlowDecomp")
            nf = nf_flow if flowy else nf_arb
            if flowy and not all(nf[v] > 0 for v in G.nodes()):
                continue
            kw = {} if cls.startswith("Min") else {"k": k}
            if "PathCover" not in cls:
                kw["weight_type"] = "int"
            tasks.append({**base, "node_flow": nf if "PathCover" not in cls else None, "kwargs": dict(kw)})
            # a node without the attribute (treated as ignored)
            if "PathCover" not in cls and len(G) > 2 and not flowy:
                v0 = rng.choice(list(G.nodes()))
                nf2 = dict(nf)
                nf2[v0] = None
                if any(x for x in nf2.values() if x):
                    tasks.append({**base, "node_flow": nf2, "kwargs": dict(kw)})
            # ignore list, node-level constraint, starts/ends
            if len(G) > 2:
                v1 = rng.choice(list(G.nodes()))
                if "PathCover" in cls or any(x for v, x in nf.items() if v != v1 and x):
                    tasks.append({**base, "node_flow": nf if "PathCover" not in cls else None, "ignored": [v1], "kwargs": {**kw, "elements_to_ignore": [v1]}})
            r = rng.choice(routes)
            if len(r) >= 2 and cls not in ("MinPathCover",):
                c = [r[0], r[1]]
                tasks.append({**base, "node_flow": nf if "PathCover" not in cls else None, "constraints": [c], "kwargs": {**kw, "subpath_constraints": [c]}})
            if cls in ("kMinPathError", "kLeastAbsErrors", "kFlowDecomp", "MinFlowDecomp"):
                # the original edges carry an attribute with the same name as the node attribute (junk values): node mode must not read it
                junk = [(u, v, 7 + j) for j, (u, v) in enumerate(es)]
                tasks.append({**base, "edges": junk, "node_flow": nf, "kwargs": dict(kw)})
            if cls in ("kMinPathError", "kLeastAbsErrors") and len(G) > 2:
                # error scale 0 / 0.5 on a node (scale 0 = ignored, also for the covering number that k=None resolves to)
                k_all = None
                # first the nodes whose removal from the demand lowers the node covering number (then k=None must resolve differently)
                cb_ = {"cyc": False, "starts": [], "ends": [], "constraints": [], "node_mode": True, "edges": es}
                k_all_ = c09.reference_min_k({**cb_, "ignored": []}, G, 4)[0]
                better_ = [v for v in G.nodes() if (c09.reference_min_k({**cb_, "ignored": [v]}, G, 4)[0] or 9) < (k_all_ or 0)]
                order_ = better_ + [v for v in G.nodes() if v not in better_]
                for v_ in order_[: (3 if tier == "quick" else 6)]:
                    if not any(x for y, x in nf.items() if y != v_ and x):
                        continue
                    for sc in (0, 0.5):
                        tasks.append({**base, "node_flow": nf, "kwargs": {**kw, "error_scaling": {v_: sc}}})
                        if cls == "kMinPathError":
                            tasks.append({**base, "node_flow": nf, "kwargs": {**{a_: b_ for a_, b_ in kw.items() if a_ != "k"}, "k": None, "error_scaling": {v_: sc}}})
                            if v_ in better_:
                                # distinct powers of two as node values: one path more or less changes the optimum
                                pw = {v: 2 ** j for j, v in enumerate(sorted(G.nodes()))}
                                tasks.append({**base, "node_flow": pw, "kwargs": {**{a_: b_ for a_, b_ in kw.items() if a_ != "k"}, "k": None, "error_scaling": {v_: sc}}})
            if cls == "kMinPathError":
                # node lengths + length-dependent slack factors: every boundary in turn, so one falls between the route lengths
                nlen = {v: rng.choice((1, 2, 3)) for v in G.nodes()}
                for B in ((3, 5) if tier == "quick" else (2, 3, 4, 5, 6, 7)):
                    for fac in ([2.0, 1.0], [1.0, 3.0]):
                        tasks.append({**base, "node_flow": {v: 3 * x + 1 for v, x in nf.items()}, "node_length": nlen,
                                      "kwargs": {**kw, "length_attr": "length", "path_length_ranges": [[0, B], [B + 1, 1000]], "path_length_factors": fac}})
                # deterministic variant: unit node lengths, values alternating 10 / 4 along a topological order (so that slack is needed),
                # every boundary between the shortest true route length and the longest route length with connectors counted
                topo = list(nx.topological_sort(G))
                alt = {v: (10 if j % 2 == 0 else 4) for j, v in enumerate(topo)}
                for B in (3, 4, 5, 6, 7):
                    for fac in ([2.0, 1.0], [1.0, 3.0]):
                        tasks.append({**base, "node_flow": alt, "node_length": {v: 1 for v in G.nodes()},
                                      "kwargs": {**{a_: b_ for a_, b_ in kw.items() if a_ != "k"}, "k": 1, "length_attr": "length", "path_length_ranges": [[0, B], [B + 1, 1000]], "path_length_factors": fac}})
            if len(routes) >= 2 and cls in ("kLeastAbsErrors", "kMinPathError", "kPathCover"):
                # two constraints given as node lists that no single route covers together (taken from two different routes)
                r1, r2 = routes[0], routes[-1]
                c1, c2 = [r1[0], r1[1]], [r2[-2], r2[-1]]
                if c1 != c2:
                    tasks.append({**base, "node_flow": nf if "PathCover" not in cls else None, "constraints": [c1, c2], "kwargs": {**kw, "k": max(2, kw.get("k", 2)), "subpath_constraints": [c1, c2]}})
            if inner and cls == "MinFlowDecomp":
                # paths may start / end at inner nodes: flow = routes of the enlarged route set (so a decomposition exists)
                v, w = rng.choice(inner), rng.choice(inner)
                for st, en in (([v], []), ([], [w]), ([v], [w])):
                    rts = F.dag_routes(G, st, en)
                    pick = rng.sample(rts, min(3, len(rts)))
                    nfr = I.node_weights_from_routes(G, pick, [rng.choice((1, 2, 3)) for _ in pick])
                    if all(nfr[x] > 0 for x in G.nodes()):
                        tasks.append({**base, "node_flow": nfr, "starts": st, "ends": en, "kwargs": {**kw, "additional_starts": st, "additional_ends": en}})
            if inner and cls in ("kLeastAbsErrors", "kMinPathError", "kPathCover", "MinPathCover"):
                v, w = rng.choice(inner), rng.choice(inner)
                tasks.append({**base, "node_flow": nf if "PathCover" not in cls else None, "starts": [v], "ends": [w], "kwargs": {**kw, "additional_starts": [v], "additional_ends": [w]}})
    for name, es in I.digraphs(tier, rng, quick_n=4, thorough_n=30):
        G = nx.DiGraph(es)
        wf = I.walk_flow(es, rng, weights=(1, 2), max_walks=2)
        nf_arb = {v: rng.choice((0, 1, 2)) for v in G.nodes()}
        if not any(nf_arb.values()):
            nf_arb["s"] = 1
        for cls in NODE_CLASSES_CYC:
            base = {"kind": "model", "name": name, "cls": cls, "edges": es, "cyc": True, "starts": [], "ends": [], "ignored": [], "constraints": []}
            flowy = "FlowDecomp" in cls
            if flowy:
                if wf is None:
                    continue
                nf = I.node_weights_from_routes(G, wf[1], wf[2])
                if max(nf.values()) > 5:
                    continue
                kw = {"weight_type": "int"} if cls.startswith("Min") else {"k": len(wf[1]), "weight_type": "int"}
            elif "PathCover" in cls:
                nf = None
                kw = {} if cls.startswith("Min") else {"k": 2}
            else:
                nf = nf_arb
                kw = {"k": 1, "weight_type": "int"}
            tasks.append({**base, "node_flow": nf, "kwargs": dict(kw)})
            if nf is not None and cls in ("kLeastAbsErrorsCycles", "kFlowDecompCycles") and name in F.CURATED_DIGRAPHS:
                tasks.append({**base, "edges": [(u, v, 7 + j) for j, (u, v) in enumerate(es)], "node_flow": nf, "kwargs": dict(kw)})     # junk edge attribute
            inner_c = [v for v in G.nodes() if G.in_degree(v) > 0 and G.out_degree(v) > 0]
            if inner_c and not flowy and not cls.startswith("Min"):
                v, w = rng.choice(inner_c), rng.choice(inner_c)
                tasks.append({**base, "node_flow": nf, "starts": [v], "ends": [], "kwargs": {**kw, "additional_starts": [v]}})
                tasks.append({**base, "node_flow": nf, "starts": [], "ends": [w], "kwargs": {**kw, "additional_ends": [w]}})
            if inner_c and cls in ("MinFlowDecompCycles", "kFlowDecompCycles"):
                # additional starts / ends are optional for the walks: the flow (built from plain s-t walks) stays decomposable
                v, w = inner_c[0], inner_c[-1]
                for st, en in (([v], []), ([], [w]), ([v], [w])):
                    tasks.append({**base, "node_flow": nf, "starts": st, "ends": en, "kwargs": {**kw, "additional_starts": st, "additional_ends": en}})
            if inner_c and cls == "MinPathCoverCycles":
                w = rng.choice(inner_c)
                tasks.append({**base, "node_flow": nf, "starts": [], "ends": [w], "kwargs": {**kw, "additional_ends": [w]}})
            if cls in ("kMinPathErrorCycles", "kLeastAbsErrorsCycles"):
                for v_ in list(G.nodes())[: (2 if tier == "quick" else 5)]:
                    if not any(x for y, x in nf.items() if y != v_ and x):
                        continue
                    for sc in (0, 0.5):
                        tasks.append({**base, "node_flow": nf, "kwargs": {**kw, "error_scaling": {v_: sc}}})
                        if cls == "kMinPathErrorCycles":
                            tasks.append({**base, "node_flow": nf, "kwargs": {"weight_type": "int", "k": None, "error_scaling": {v_: sc}}})
            v1 = rng.choice([v for v in G.nodes()])
            if nf is None or any(x for v, x in nf.items() if v != v1 and x):
                if not flowy:
                    tasks.append({**base, "node_flow": nf, "ignored": [v1], "kwargs": {**kw, "elements_to_ignore": [v1]}})
    for i, t in enumerate(tasks):
        t["tid"] = i
    return tasks


def node_task(task):
    kw = dict(task["kwargs"])
    cover = "PathCover" in task["cls"]
    kw["cover_type" if cover else "flow_attr_origin"] = "node"
    return {"cls": task["cls"], "edges": task["edges"], "node_flow": task["node_flow"], "node_length": task.get("node_length"),
            "nodes": sorted({x for e in task["edges"] for x in e[:2]}), "kwargs": kw}


def expanded_task(task):
    """the textbook expansion, built here (not with NodeExpandedDiGraph): v -> (v.0, v.1) carrying v's value, original edges ignored"""
    G = nx.DiGraph()
    G.add_edges_from([(e[0], e[1]) for e in task["edges"]])
    nf = task["node_flow"] or {}
    cover = "PathCover" in task["cls"]
    nl = task.get("node_length")
    edges = []
    ignore = []
    for v in G.nodes():
        f = nf.get(v)
        if cover:
            edges.append((v + ".0", v + ".1"))
        elif nl is not None:
            edges.append((v + ".0", v + ".1", f, nl.get(v)))       # the node's length sits on its edge, connectors have length 0
        else:
            edges.append((v + ".0", v + ".1", f))
            if f is None:
                ignore.append([v + ".0", v + ".1"])
    junk = {(e[0], e[1]): e[2] for e in task["edges"] if len(e) >= 3}      # attribute values the caller left on the original edges
    for (u, v) in G.edges():
        jv = junk.get((u, v))
        edges.append((u + ".1", v + ".0") if cover else ((u + ".1", v + ".0", jv, 0) if nl is not None else (u + ".1", v + ".0", jv)))
        ignore.append([u + ".1", v + ".0"])
    for v in task["ignored"]:
        ignore.append([v + ".0", v + ".1"])
    wrapper_fd = task["cls"] in ("MinFlowDecomp", "MinFlowDecompCycles")
    if wrapper_fd:
        # the edge-mode wrappers take no additional starts/ends: model them by a fresh source / sink with ignored edges
        for v in task["starts"]:
            edges.append(("START", v + ".0", None))
            ignore.append(["START", v + ".0"])
        for v in task["ends"]:
            edges.append((v + ".1", "END", None))
            ignore.append([v + ".1", "END"])
    kw = {k: v for k, v in task["kwargs"].items() if k not in ("elements_to_ignore", "subpath_constraints", "subset_constraints", "additional_starts", "additional_ends", "error_scaling")}
    kw["elements_to_ignore"] = ignore
    if task["kwargs"].get("error_scaling"):
        kw["error_scaling"] = {(v + ".0", v + ".1"): f for v, f in task["kwargs"]["error_scaling"].items()}
    ck = "subset_constraints" if task["cyc"] else "subpath_constraints"
    if task["constraints"]:
        kw[ck] = [[[v + ".0", v + ".1"] for v in c] for c in task["constraints"]]
    if task["starts"] and not wrapper_fd:
        kw["additional_starts"] = [v + ".0" for v in task["starts"]]
    if task["ends"] and not wrapper_fd:
        kw["additional_ends"] = [v + ".1" for v in task["ends"]]
    return {"cls": task["cls"], "edges": edges, "kwargs": kw}


def _solve(t):
    try:
        with hx.capture() as sess:
            m, G = models.construct(t)
            ok = m.solve()
        obj = m.get_objective_value() if ok else None
        return {"solved": bool(ok), "objective": None if obj is None else float(obj), "snaps": sess.snaps, "m": m, "G": G}
    except Exception as e:
        return {"raised": f"{type(e).__name__}: {e}"[:200]}


def run_task(task):
    res = new_result()
    res["evaluations"] = 1
    if task["kind"] == "kernel":
        return _kernel(task, res)
    cls = task["cls"]
    res["functions"] = [f"{cls} (node mode)", "NodeExpandedDiGraph.__init__/get_expanded_edge/get_expanded_subpath_constraints/get_expanded_additional_starts/ends/get_condensed_paths"]
    a = _solve(node_task(task))
    b = _solve(expanded_task(task))
    desc = {k: task[k] for k in ("cls", "name", "edges", "node_flow", "kwargs")}
    res["obligations"] += 1
    res["nontrivial"] += 1
    if "raised" in a or "raised" in b:
        if ("raised" in a) != ("raised" in b):
            res["violations"].append({"signature": f"{cls}:node-mode-raises-but-expansion-does-not" if "raised" in a else f"{cls}:expansion-raises-but-node-mode-does-not",
                                      "summary": f"{task['name']}: node mode -> {a.get('raised', 'ok')}; explicit expansion -> {b.get('raised', 'ok')}", "replay": {"task": task}})
        else:
            res["discharged"] += 1
        return res
    res["samples"].append({"obligation": "node mode vs explicit expansion: same solved status and optimal objective (honest), same certified LP optimum (z3)", "instance": desc,
                           "node_mode": [a["solved"], a["objective"]], "expanded": [b["solved"], b["objective"]]})
    same = a["solved"] == b["solved"] and (a["objective"] is None or b["objective"] is None or abs(a["objective"] - b["objective"]) < 1e-6)
    if not same:
        res["violations"].append({"signature": f"{cls}:node-mode-differs-from-expansion", "summary": f"{task['name']}: node mode {a['solved']}/{a['objective']} vs expansion {b['solved']}/{b['objective']}",
                                  "replay": {"task": task}})
        return res
    res["discharged"] += 1
    # routes in original names
    if a["solved"]:
        key = "walks" if task["cyc"] else "paths"
        G = nx.DiGraph()
        G.add_edges_from([(e[0], e[1]) for e in task["edges"]])
        res["obligations"] += 1
        pr = []
        for r in a["m"].get_solution()[key]:
            if r:
                pr += checkers.route_problems(G, r, task["starts"], task["ends"], simple=not task["cyc"])
        if pr:
            res["violations"].append({"signature": f"{cls}:node-mode-routes-not-in-original-names", "summary": f"{task['name']}: {pr[0]}", "replay": {"task": task}})
        else:
            res["discharged"] += 1
    # LP level for k-models: equal certified optimum / equi-feasibility over all solver answers
    if cls in models.MIN_WRAPPERS or not a["snaps"] or not b["snaps"]:
        return res
    la, lb = a["snaps"][-1], b["snaps"][-1]
    res["extra"]["programs"] = res["extra"].get("programs", 0) + 2
    res["obligations"] += 1
    if not a["solved"]:
        ra, _ = smt.feasible(la)
        rb, _ = smt.feasible(lb)
        v = "equal" if ra == rb == "unsat" else ("unknown" if "unknown" in (ra, rb) else "differs")
    elif not any(c != 0 for c in la.cost):
        ra, _ = smt.feasible(la)
        rb, _ = smt.feasible(lb)
        v = "equal" if ra == rb == "sat" else ("unknown" if "unknown" in (ra, rb) else "differs")
    else:
        o = Fraction(lb.honest_obj).limit_denominator(10 ** 6)
        ea = smt.Enc(la)
        v, _ = smt.certify_optimum(ea.cons, ea.min_obj, o, Fraction(1, 10 ** 6), 90000)
    if v == "equal":
        res["discharged"] += 1
    elif v == "unknown":
        res["inconclusive"] += 1
    else:
        res["extra"]["disagreements_checked"] = res["extra"].get("disagreements_checked", 0) + 1
        res["violations"].append({"signature": f"{cls}:node-mode-LP-differs-from-expansion-LP", "summary": f"{task['name']}: {v}", "replay": {"task": task}})
    return res


def _kernel(task, res):
    res["functions"] = ["NodeExpandedDiGraph.get_condensed_paths", "NodeExpandedDiGraph.get_expanded_edge", "NodeExpandedDiGraph.get_expanded_subpath_constraints", "NodeExpandedDiGraph.get_expanded_additional_starts/ends", "NodeExpandedDiGraph.edges_to_ignore"]
    out, cpu = xh.run_module(KERNEL, "c11_kernel", per_condition_timeout=task.get("timeout", 40))
    res["solver_s"] += cpu
    for fn, v in out.items():
        res["obligations"] += 1
        res["queries"] += 1
        res["nontrivial"] += 1
        res["samples"].append({"harness": "NodeExpandedDiGraph kernels (CrossHair, symbolic node sequences over a 3-name alphabet incl. a name ending in '.0')", "function": fn, "verdict": v["verdict"]})
        if v["verdict"] == "confirmed":
            res["discharged"] += 1
        elif v["verdict"] == "counterexample":
            res["violations"].append({"signature": f"NodeExpandedDiGraph:{fn}", "summary": v["message"][:250], "replay": {"task": task, "call": xh.parse_call(v["message"]), "fn": fn}})
        elif v["verdict"] == "error":
            res["harness_errors"].append(f"crosshair failed on {fn}: {v['message'][-500:]}")
        else:
            res["inconclusive"] += 1
    return res


def replay(data):
    task = data["task"]
    if task["kind"] == "kernel":
        call = data.get("call")
        if not call:
            return False
        fn, pos, kw = call
        r = xh.call_concretely(KERNEL, "c11_replay", fn, pos, kw)
        print(f"  replay: {fn}({pos},{kw}) -> {r}")
        return r is False
    r = run_task(task)
    for v in r["violations"]:
        print("  replay:", v["signature"], v["summary"][:300])
    return bool(r["violations"])


RULE = ("one case = (node-mode class, node-weighted graph, options) solved in node mode and on the explicit expansion built by the harness; plus CrossHair kernels of NodeExpandedDiGraph; "
        "non-trivial = all; programs = pairs of captured LPs")
ASSUMPTIONS = [
    "reference expansion: v -> (v.0, v.1) carrying v's value, (u,v) -> (u.1, v.0) ignored, nodes without the attribute ignored, starts -> v.0, ends -> v.1, node constraints -> their expanded edges",
    "k-models: certified optimum / feasibility of the node-mode LP equals that of the expansion LP (z3); Min* wrappers compared on honest results",
    "kernels: node sequences of length <= 4 over a 3-name alphabet (one name itself ends in '.0')",
]


def main(tier, seed):
    t0 = time.time()
    tasks = gen_tasks(tier, seed)
    for t in tasks:
        t["timeout"] = 40 if tier == "quick" else 200
    acc = core.run_tasks(run_task, tasks, deadline_s=170 if tier == "quick" else 1500)
    bounds = {"dag_nodes_max": 4 if tier == "quick" else 5, "inner_nodes_max": 3}
    return core.finish(PID, tier, seed, LEVEL, acc, t0, RULE, ASSUMPTIONS, bounds, replay)
