"""C03 -- MinFlowDecomp (DAG) always finds a decomposition and it has the fewest paths."""
from __future__ import annotations

import copy
import random
from fractions import Fraction
import time

import networkx as nx
import z3

from .. import checkers, core, families as F, hx, instances as I, models, smt, spec
from ..core import HarnessError, new_result
from . import c02

PID = "C03"
LEVEL = "translation_validation"


def gen_tasks(tier, seed):
    rng = random.Random(seed + 3)
    tasks = []
    for name, es in I.dag_graphs(tier, rng, quick_n=8, thorough_n5=400):
        G = nx.DiGraph(es)
        routes = F.dag_routes(G)
        for rep in range(1 if tier == "quick" else 2):
            fl = I.dag_flow(es, rng)
            if fl is None:
                continue
            wedges = I.with_flow(es, fl)
            base = {"name": name, "cls": "MinFlowDecomp", "starts": [], "ends": [], "ignored": [], "constraints": []}
            tasks.append({**base, "edges": wedges, "kwargs": {"weight_type": "int"}})
            tasks.append({**base, "edges": wedges, "kwargs": {"weight_type": "float"}})
            tasks.append({**base, "edges": wedges, "kwargs": {"weight_type": "int", "optimization_options": {"optimize_with_greedy": False}}})
            # guessed-weights shortcut (non-default), no constraints
            tasks.append({**base, "edges": wedges, "kwargs": {"weight_type": "int", "optimization_options": {"optimize_with_guessed_weights": True, "optimize_with_greedy": False}}})
            tasks.append({**base, "edges": wedges, "kwargs": {"weight_type": "int", "optimization_options": {"optimize_with_guessed_weights": True}}})
            # non-default lower bounds
            tasks.append({**base, "edges": wedges, "kwargs": {"weight_type": "int", "optimization_options": {"use_min_gen_set_lowerbound": True, "optimize_with_greedy": False}}})
            tasks.append({**base, "edges": wedges, "kwargs": {"weight_type": "int", "optimization_options": {"use_min_gen_set_lowerbound": True, "use_min_gen_set_lowerbound_partition_constraints": True}}})
            tasks.append({**base, "edges": wedges, "subgraph_window": 3, "kwargs": {"weight_type": "int", "optimization_options": {"use_subgraph_scanning_lowerbound": True}}})
            # lower-bound options combined with ignored elements / constraints (the sub-instances must ignore the same elements)
            if len(es) > 2:
                e1 = rng.choice(es)
                for oo in ({"use_subgraph_scanning_lowerbound": True}, {"use_min_gen_set_lowerbound": True}, {"use_subgraph_scanning_lowerbound": True, "optimize_with_greedy": False},
                           {"use_min_gen_set_lowerbound": True, "use_min_gen_set_lowerbound_partition_constraints": True}):
                    tasks.append({**base, "edges": wedges, "ignored": [e1], "subgraph_window": rng.choice([2, 3]),
                                  "kwargs": {"weight_type": "int", "elements_to_ignore": [e1], "optimization_options": oo}})
                # two ignored edges whose stale values differ from what the rest of the flow implies (+1 / -1), not leaving a source:
                # every lower-bound option must leave them out
                G_in = nx.DiGraph(es)
                inner_e = [e for e in es if G_in.in_degree(e[0]) > 0]
                for pair in ([inner_e[:2]] if len(inner_e) >= 2 else []):
                    stale = [(u, v, (f + 1 if (u, v) == pair[0] else max(0, f - 1) if (u, v) == pair[1] else f)) for (u, v, f) in wedges]
                    for oo in ({"use_min_gen_set_lowerbound": True, "use_min_gen_set_lowerbound_partition_constraints": True}, {"use_min_gen_set_lowerbound": True}, {}):
                        tasks.append({**base, "edges": stale, "ignored": [list(e) for e in pair],
                                      "kwargs": {"weight_type": "int", "elements_to_ignore": [list(e) for e in pair], "optimization_options": dict(oo)}})
                e2 = rng.sample(es, 2)
                tasks.append({**base, "edges": wedges, "ignored": e2, "subgraph_window": 2,
                              "kwargs": {"weight_type": "int", "elements_to_ignore": e2, "optimization_options": {"use_subgraph_scanning_lowerbound": True}}})
            # subpath constraints admitting a decomposition: take a sub-path of a route used by the flow
            sps = I.contiguous_subpaths(es, 3)
            sp = rng.choice(sps)
            tasks.append({**base, "edges": wedges, "constraints": [sp], "kwargs": {"weight_type": "int", "subpath_constraints": [sp]}})
            if len(sps) > 1:
                sp2 = rng.choice(sps)
                tasks.append({**base, "edges": wedges, "constraints": [sp, sp2], "kwargs": {"weight_type": "int", "subpath_constraints": [sp, sp2], "optimization_options": {"optimize_with_greedy": False}}})
            # guessed-weights shortcut (non-default): the auxiliary model must honour the constraints too. Every 2-edge
            # subpath in turn (not sampled): the ones that cross the routes of the flow raise the constrained minimum
            if rep == 0:
                for sp2e in [c for c in sps if len(c) == 2][: (6 if tier == "quick" else 30)]:
                    for extra in ({}, {"optimize_with_greedy": False}):
                        tasks.append({**base, "edges": wedges, "constraints": [sp2e], "kwargs": {"weight_type": "int", "subpath_constraints": [sp2e],
                                                                                                 "optimization_options": {"optimize_with_guessed_weights": True, **extra}}})
            # ignored element: minimum over decompositions of the non-ignored part
            e0 = rng.choice(es)
            if len(es) > 1:
                tasks.append({**base, "edges": wedges, "ignored": [e0], "kwargs": {"weight_type": "int", "elements_to_ignore": [e0]}})
            # node-weighted, incl. a node without the attribute
            ws = [rng.choice((1, 2, 3)) for _ in routes[:3]]
            nf = I.node_weights_from_routes(G, routes[:3], ws)
            if all(nf[v] > 0 for v in G.nodes()):
                tasks.append({**base, "edges": es, "node_flow": nf, "node_mode": True, "kwargs": {"flow_attr_origin": "node", "weight_type": "int"}})
                if G.number_of_nodes() > 2:
                    v0 = rng.choice(list(G.nodes()))
                    nf2 = dict(nf)
                    nf2[v0] = None
                    tasks.append({**base, "edges": es, "node_flow": nf2, "node_mode": True, "ignored": [v0], "kwargs": {"flow_attr_origin": "node", "weight_type": "int"}})
    # larger hand-made DAGs for the lower-bound options only (few routes, so the route-enumeration spec stays small):
    # one source, sinks at different depths, chains of different length into a common node, a direct skip edge
    for name, wedges in LB_SHAPES:
        base = {"name": name, "cls": "MinFlowDecomp", "starts": [], "ends": [], "ignored": [], "constraints": [], "edges": wedges, "no_kmodels": True}
        for oo in ({"use_min_gen_set_lowerbound": True, "use_min_gen_set_lowerbound_partition_constraints": True},
                   {"use_min_gen_set_lowerbound": True, "use_min_gen_set_lowerbound_partition_constraints": True, "optimize_with_greedy": False},
                   {"use_min_gen_set_lowerbound": True}, {"use_subgraph_scanning_lowerbound": True}):
            for wt in ("int", "float"):
                tasks.append({**base, "subgraph_window": 3, "kwargs": {"weight_type": wt, "optimization_options": dict(oo)}})
    for i, t in enumerate(tasks):
        t["tid"] = i
    return tasks


LB_SHAPES = [
    ("multi_depth_sinks", [("s", "a1", 3), ("a1", "b1", 3), ("b1", "c", 3), ("s", "a2", 5), ("a2", "b2", 5), ("b2", "c", 5), ("s", "c", 1), ("c", "d1", 4), ("c", "d2", 5), ("s", "e", 8)]),
    ("skip_and_chain", [("s", "a", 4), ("a", "b", 4), ("b", "t", 6), ("s", "b", 2), ("s", "u", 6)]),
    ("two_depth_merge", [("s", "a", 2), ("a", "m", 2), ("s", "m", 3), ("m", "x", 1), ("m", "y", 4), ("x", "z", 1), ("s", "q", 5)]),
]


# --------------------------------------------------------------------------- spec side
def spec_k(task, G, k, tag="S"):
    wt = task["kwargs"].get("weight_type", "float")
    sp = spec.RouteSpec(G, k, wtype=wt, tag=tag)
    node_mode = task.get("node_mode", False)
    dem = spec.demands_of(G, "flow", node_mode, task["ignored"])
    cons = list(sp.cons) + spec.flow_decomposition(sp, dem)
    if task["constraints"]:
        cov = task["kwargs"].get("subpath_constraints_coverage", 1.0)
        cons += spec.constraints_satisfied(sp, task["constraints"], cov)
    return sp, cons


def reference_min_k(task, G, kmax):
    """least k with Spec_k satisfiable (every smaller k certified unsat).  Returns (k_ref|None, witness, inconclusive)."""
    for k in range(1, kmax + 1):
        sp, cons = spec_k(task, G, k)
        s = smt.solver(60000)
        s.add(cons)
        r = smt.check(s)
        if r == "unknown":
            return None, None, True
        if r == "sat":
            routes, ws = sp.read(s.model())
            return k, {"routes": routes, "weights": [str(w) for w in ws]}, False
    return None, None, False


def witness_ok(task, G, wit):
    """plain validation of a Spec witness (used in replay so the oracle is not taken on faith)"""
    from fractions import Fraction
    routes = wit["routes"]
    ws = [Fraction(w) for w in wit["weights"]]
    t2 = dict(task)
    sol = {"paths": routes, "weights": [int(w) if w.denominator == 1 and task["kwargs"].get("weight_type") == "int" else float(w) for w in ws]}
    for r in routes:
        if checkers.route_problems(G, r, simple=True):
            return False
    if c02.explanation_problems({**t2, "cls": "MinFlowDecomp"}, G, sol):
        return False
    for c in task["constraints"]:
        cov = task["kwargs"].get("subpath_constraints_coverage", 1.0)
        best = 0
        for r in routes:
            es = set(zip(r[:-1], r[1:]))
            best = max(best, sum(1 for e in c if tuple(e) in es))
        if best < len(c) * cov:
            return False
    return True


def _returned_ok(task, G, m):
    sol = m.get_solution()
    return witness_ok(task, G, {"routes": [list(p) for p in sol["paths"]], "weights": [str(Fraction(w)) for w in sol["weights"]]})


# --------------------------------------------------------------------------- the task
def _mfd(task):
    m, G = models.construct(task)
    return m, G


def run_task(task):
    res = new_result()
    res["functions"] = ["MinFlowDecomp.solve/get_lowerbound_k", "kFlowDecomp.__init__/_encode_flow_decomposition", "stDAG.get_width/compute_max_edge_antichain",
                        "MinGenSet.solve (when selected)", "AbstractPathModelDAG._encode_paths"]
    res["evaluations"] = 1
    import flowpaths as fp
    old_size, old_shift = fp.MinFlowDecomp.subgraph_lowerbound_size, fp.MinFlowDecomp.subgraph_lowerbound_shift
    if task.get("subgraph_window"):
        fp.MinFlowDecomp.subgraph_lowerbound_size = task["subgraph_window"]
        fp.MinFlowDecomp.subgraph_lowerbound_shift = max(1, task["subgraph_window"] - 1)
    try:
        return _run(task, res)
    finally:
        fp.MinFlowDecomp.subgraph_lowerbound_size, fp.MinFlowDecomp.subgraph_lowerbound_shift = old_size, old_shift


def _run(task, res):
    G = models.graph_of(task)
    nE = G.number_of_edges() if not task.get("node_mode") else G.number_of_nodes()
    kmax = min(6, nE + len(task["constraints"]) + 1)
    res["obligations"] += 1
    k_ref, wit, inc = reference_min_k(task, G, kmax)
    if inc:
        res["inconclusive"] += 1
        return res
    if k_ref is None:
        res["extra"]["no_reference_decomposition_within_kmax"] = 1
        return res
    res["discharged"] += 1
    res["nontrivial"] += 1 if k_ref >= 2 else 0
    desc = {"graph": task["name"], "edges": task["edges"], "node_flow": task.get("node_flow"), "kwargs": task["kwargs"], "k_ref": k_ref}
    # (a) the real wrapper
    with hx.capture() as sess:
        m, _G = models.construct(task)
        try:
            lb = m.get_lowerbound_k()
        except SystemExit:
            lb = None
        ok = m.solve()
    statuses = [lp.honest_status for lp in sess.snaps]
    res["obligations"] += 1
    got = len(m.get_solution()["paths"]) if ok else None
    res["samples"].append({"obligation": "MinFlowDecomp.solve() solved with k == least k for which the route-enumeration spec is satisfiable", "instance": desc,
                           "solved": ok, "returned_k": got, "lowerbound": lb, "lp_statuses": statuses})
    if ok and got == k_ref:
        res["discharged"] += 1
    else:
        sig = _diagnose(task, m, ok, got, k_ref, lb, statuses)
        if ok and got < k_ref and not _returned_ok(task, G, m):
            # fewer paths than the certified minimum AND the plain checker rejects what was returned: the model's fault, not the spec's
            sig = "returned-decomposition-invalid(fewer-paths-than-any-valid-decomposition)"
        res["violations"].append({"signature": f"MinFlowDecomp:{sig}",
                                  "summary": f"{task['name']}: solved={ok} returned k={got}, reference minimum k={k_ref}, lowerbound={lb}",
                                  "replay": {"kind": "wrapper", "task": task, "k_ref": k_ref, "witness": wit}})
    # (c) lower bound
    res["obligations"] += 1
    if lb is not None and lb <= k_ref:
        res["discharged"] += 1
    elif lb is not None and not (ok and got == k_ref) :
        pass  # already reported through (a) with the lower-bound diagnosis
    elif lb is not None:
        res["violations"].append({"signature": f"MinFlowDecomp:{_diagnose(task, m, False, None, k_ref, lb, statuses)}",
                                  "summary": f"{task['name']}: lower bound {lb} exceeds minimum {k_ref}",
                                  "replay": {"kind": "wrapper", "task": task, "k_ref": k_ref, "witness": wit}})
    # (b) LP_k feasible <=> Spec_k satisfiable, k = 1..k_ref+1, with the wrapper's own arguments
    for k in ([] if task.get("no_kmodels") else range(1, min(k_ref + 1, 5) + 1)):
        kt = _kfd_task(task, m, k)
        try:
            km, _ = models.construct(kt)
        except Exception as e:
            res["extra"]["kmodel_raised"] = res["extra"].get("kmodel_raised", 0) + 1
            continue
        if not hasattr(km, "solver"):
            continue
        lp = hx.snapshot_unsolved(km.solver)
        res["extra"]["programs"] = res["extra"].get("programs", 0) + 1
        res["obligations"] += 1
        r, _vals = smt.feasible(lp)
        want = "sat" if k >= k_ref else "unsat"
        if r == "unknown":
            res["inconclusive"] += 1
        elif r == want:
            res["discharged"] += 1
        else:
            res["extra"]["disagreements_checked"] = res["extra"].get("disagreements_checked", 0) + 1
            res["violations"].append({"signature": f"kFlowDecomp:LP_k-{'infeasible-but-spec-sat' if want == 'sat' else 'feasible-but-spec-unsat'}",
                                      "summary": f"{task['name']}: k={k}: LP is {r}, spec says {want} (k_ref={k_ref})",
                                      "replay": {"kind": "kmodel", "task": kt, "k": k, "k_ref": k_ref, "witness": wit, "want": want}})
    return res


def _kfd_task(task, m, k):
    """kFlowDecomp exactly as MinFlowDecomp.solve() would instantiate it (greedy off so that an LP exists)."""
    oo = copy.deepcopy(task["kwargs"].get("optimization_options", {}))
    oo["optimize_with_greedy"] = False
    for key in list(oo):
        if key.startswith("use_") or key.startswith("min_gen") or key in ("optimize_with_guessed_weights", "lowerbound_k"):
            oo.pop(key)
    if task.get("node_mode"):
        # the wrapper forwards the expanded graph in edge mode
        H = m.G
        edges = [(u, v, H[u][v].get("flow")) for (u, v) in H.edges()]
        kw = {"k": k, "weight_type": task["kwargs"].get("weight_type", "float"), "elements_to_ignore": [list(e) for e in m.edges_to_ignore],
              "subpath_constraints": [[list(e) for e in c] for c in m.subpath_constraints], "optimization_options": oo}
        return {"cls": "kFlowDecomp", "name": task["name"], "edges": edges, "kwargs": kw, "starts": [], "ends": [], "ignored": [list(e) for e in m.edges_to_ignore]}
    kw = {kk: vv for kk, vv in task["kwargs"].items() if kk != "optimization_options"}
    kw["k"] = k
    kw["optimization_options"] = oo
    return {"cls": "kFlowDecomp", "name": task["name"], "edges": task["edges"], "kwargs": kw, "starts": [], "ends": [], "ignored": task["ignored"]}


def _diagnose(task, m, ok, got, k_ref, lb, statuses):
    nE = m.G.number_of_edges()
    if lb is not None and lb > k_ref:
        return "lower-bound-exceeds-optimum"
    if not ok and k_ref >= nE and (lb is None or lb <= k_ref) and not any(s not in ("kInfeasible", "kOptimal") for s in statuses):
        return "search-range-ends-before-k=|E|"
    if not ok:
        return "unsolved-although-decomposition-exists"
    if got is not None and got > k_ref:
        return "non-minimal"
    if got is not None and got < k_ref:
        return "fewer-than-reference(spec-or-decode-disagreement)"
    return "other"


def replay(data):
    task = data["task"]
    G = models.graph_of(task if data["kind"] == "wrapper" else {**task})
    if data["kind"] == "wrapper":
        if not witness_ok(task, G, data["witness"]) or len(data["witness"]["routes"]) != data["k_ref"]:
            print("  replay: spec witness rejected by the plain checker")
            return False
        import flowpaths as fp
        old = (fp.MinFlowDecomp.subgraph_lowerbound_size, fp.MinFlowDecomp.subgraph_lowerbound_shift)
        if task.get("subgraph_window"):
            fp.MinFlowDecomp.subgraph_lowerbound_size = task["subgraph_window"]
            fp.MinFlowDecomp.subgraph_lowerbound_shift = max(1, task["subgraph_window"] - 1)
        try:
            m, _ = models.construct(task)
            ok = m.solve()
        finally:
            fp.MinFlowDecomp.subgraph_lowerbound_size, fp.MinFlowDecomp.subgraph_lowerbound_shift = old
        got = len(m.get_solution()["paths"]) if ok else None
        print(f"  replay: MinFlowDecomp solved={ok} k={got}; a valid decomposition with k={data['k_ref']} exists: {data['witness']}")
        if ok and got < data["k_ref"]:
            good = _returned_ok(task, G, m)
            print(f"  replay: returned decomposition {m.get_solution()['paths']} accepted by the plain checker (flow, constraints): {good}")
            return not good
        return (not ok) or got > data["k_ref"]
    if data["kind"] == "kmodel":
        m, _ = models.construct(task)
        ok = m.solve()
        print(f"  replay: kFlowDecomp(k={data['k']}) solved={ok}, spec says {data['want']}")
        return ok != (data["want"] == "sat")
    return False


RULE = ("one case = (DAG, positive conserving flow, weight type, constraints/ignored/node mode, lower-bound options); non-trivial = reference minimum k >= 2; "
        "programs = real kFlowDecomp LPs compared with the route-enumeration spec for the same k")
ASSUMPTIONS = [
    "reference minimum = least k for which z3 finds k enumerated source-to-sink routes + non-negative weights of the requested type reproducing the flow (every smaller k unsat)",
    "LP_k feasibility decided by z3 on the captured LP (EXACT reading)", "graphs/flows enumerated: DAGs <= 4 nodes (5 in thorough), flows = superpositions of <= 3 routes, weights {1,2,3,5}",
    "subgraph-scanning window shrunk to 3 nodes (class attribute) so that it triggers on small graphs", "k <= 6",
]


def main(tier, seed):
    t0 = time.time()
    tasks = gen_tasks(tier, seed)
    acc = core.run_tasks(run_task, tasks, deadline_s=170 if tier == "quick" else 1500)
    bounds = {"dag_nodes_max": 4 if tier == "quick" else 5, "k_max": 6, "flow_weights": [1, 2, 3, 5]}
    return core.finish(PID, tier, seed, LEVEL, acc, t0, RULE, ASSUMPTIONS, bounds, replay)
