"""C13 -- solved means proven optimal; inconclusive solver runs never yield an answer.

The search loops are executed by CrossHair with the k-model replaced by a stub whose outcome is read from a
*symbolic outcome sequence* (one status per solver invocation); the abstract ``solve()`` methods are executed with a
stub solver returning a symbolic status.  A concrete cross-check injects statuses at the highspy boundary into the
real classes to validate that the stubs stand for them.
"""
from __future__ import annotations

import random
import time

from .. import core, hx, models, xh
from ..core import new_result

PID = "C13"
LEVEL = "model_checking"

COMMON = xh.PRELUDE + '''
from typing import List
import networkx as nx
import flowpaths as fp
from crosshair.tracers import NoTracing

OPT, INF, TL, INT, UNK = 0, 1, 2, 3, 4
_NAMES = {OPT: "kOptimal", INF: "kInfeasible", TL: "kTimeLimit", INT: "kInterrupt", UNK: 11}
_S = {"sched": [], "calls": []}

class _StubSolver:
    def __init__(self, code, k=0):
        self.code = code
        self.k = k
    def optimize(self):
        pass
    def get_model_status(self):
        return _NAMES[self.code]
    def get_values(self, vars, binary_values=False):
        return {i: 1 for i in range(self.k)}
    def get_objective_value(self):
        return 0

def _next_code(k):
    j = len(_S["calls"])
    code = _S["sched"][j] if j < len(_S["sched"]) else INF
    _S["calls"].append((k, code))
    return code

def _expected():
    """first outcome that is not 'infeasible' decides; (solved?, deciding call index or None)"""
    for j, (k, code) in enumerate(_S["calls"]):
        if code == INF:
            continue
        return code == OPT, j
    return False, None

def _consecutive_ks(lb):
    ks = [k for (k, _c) in _S["calls"]]
    return ks == list(range(lb, lb + len(ks)))

def _solved(m):
    """is_solved() as a caller may use it: an exception is not a claim of being solved"""
    try:
        return bool(m.is_solved())
    except Exception:
        return False

def _raises(f):
    try:
        f()
        return False
    except Exception:
        return True
'''

WRAPPER = '''
import {modpath} as _wm

class _StubK:
    def __init__(self, G=None, flow_attr=None, k=None, **kw):
        self.k = k
        self.code = _next_code(k)
        self.solver = _StubSolver(self.code, k)
        self.solve_statistics = {{}}
    def solve(self):
        return self.code == OPT
    def is_solved(self):
        return self.code == OPT
    def get_solution(self, remove_empty_paths=False, remove_empty_walks=False):
        if self.code != OPT:
            raise Exception("not solved")
        return {{"{key}": [["a", "b"]] * self.k, "weights": [1] * self.k}}
    def is_valid_solution(self):
        return True

_wm.{kmod}.{kcls} = _StubK

G = nx.DiGraph()
for (u, v, f) in {edges!r}:
    G.add_edge(u, v, flow=f)

class _Clock:
    def __init__(self):
        self.now = 0
        self.ticks = []
    def __call__(self):
        if self.ticks:
            self.now += self.ticks.pop(0)
        return self.now
_clock = _Clock()
{clock_patch}

def check_search(sched: List[int]{clock_arg}) -> bool:
    """
    pre: len(sched) == {nsched}
    pre: all(0 <= s <= 4 for s in sched)
{clock_pre}    post: _
    """
    _S["sched"] = sched
    _S["calls"] = []
    _clock.now = 0
    _clock.ticks = {clock_init}
    with NoTracing():
        m = fp.{wcls}(G{ctor_args})
        lb = m.get_lowerbound_k()
    ok = m.solve()
    exp, j = _expected()
    if not _consecutive_ks(lb):
        return False
    if {timed}:
        # with a time budget the search may additionally give up; it may never accept what was not proven optimal
        if ok and not exp:
            return False
        if ok and j != len(_S["calls"]) - 1:
            return False
    else:
        if ok != exp:
            return False
        if j is not None and j != len(_S["calls"]) - 1:
            return False      # the search went on after the deciding outcome
    if _solved(m) != bool(ok):
        return False
    if not ok:
        return _raises(m.get_solution) and _raises(m.get_objective_value)
    return len(m.get_solution()["{key}"]) == _S["calls"][-1][0]

def twin_reach(sched: List[int]{clock_arg}) -> bool:
    """
    pre: len(sched) == {nsched}
    pre: all(0 <= s <= 4 for s in sched)
    pre: sched[0] == 1 and sched[1] == 0
{clock_pre}    post: False
    """
    _S["sched"] = sched
    _S["calls"] = []
    _clock.now = 0
    _clock.ticks = {clock_init}
    with NoTracing():
        m = fp.{wcls}(G{ctor_args})
    m.solve()
    return True

check_search([1, 1, 0, 0, 0][:{nsched}]{clock_warm})
'''

MINGENSET = COMMON + '''
def _create(self, k):
    code = _next_code(k)
    self.solver = _StubSolver(code, k)
    self.genset_vars = None
fp.MinGenSet._create_solver = _create

def check_search(sched: List[int]) -> bool:
    """
    pre: len(sched) == 4
    pre: all(0 <= s <= 4 for s in sched)
    post: _
    """
    _S["sched"] = sched
    _S["calls"] = []
    m = fp.MinGenSet([3, 5, 8, 11, 2], total=16, weight_type=int)
    ok = m.solve()
    exp, j = _expected()
    if ok != exp or _solved(m) != exp:
        return False
    if j is not None and j != len(_S["calls"]) - 1:
        return False
    if not ok:
        return _raises(m.get_solution)
    return len(m.get_solution()) == _S["calls"][-1][0]

def twin_reach(sched: List[int]) -> bool:
    """
    pre: len(sched) == 4
    pre: all(0 <= s <= 4 for s in sched)
    pre: sched[0] == 1 and sched[1] == 0
    post: False
    """
    _S["sched"] = sched
    _S["calls"] = []
    fp.MinGenSet([3, 5, 8, 11, 2], total=16, weight_type=int).solve()
    return True

def check_search_twice(sched1: List[int], sched2: List[int]) -> bool:
    """
    pre: len(sched1) == 3 and len(sched2) == 3
    pre: all(0 <= s <= 4 for s in sched1) and all(0 <= s <= 4 for s in sched2)
    post: _
    """
    # the same object solved twice: whatever the first run ended with, the second run may skip only sizes the first run
    # *proved* infeasible, and its own first status that is not 'infeasible' decides
    _S["sched"] = sched1
    _S["calls"] = []
    m = fp.MinGenSet([3, 5, 8, 11, 2], total=16, weight_type=int)
    m.solve()
    first = list(_S["calls"])
    undecided = None
    for (k, code) in first:
        if code != INF:
            undecided = k
            break
    if undecided is None:
        undecided = (first[-1][0] + 1) if first else 1
    _S["sched"] = sched2
    _S["calls"] = []
    ok = m.solve()
    exp, j = _expected()
    if ok != exp or _solved(m) != exp:
        return False
    ks = [k for (k, _c) in _S["calls"]]
    if not ks:
        return False
    if not (1 <= ks[0] <= undecided) or ks != list(range(ks[0], ks[0] + len(ks))):
        return False
    if not ok:
        return _raises(m.get_solution)
    return len(m.get_solution()) == _S["calls"][-1][0]

check_search([1, 0, 0, 0])
'''

NUMPATHS = COMMON + '''
from flowpaths.numpathsoptimization import NumPathsOptimization

_OBJ = {"vals": []}

class _StubModel:
    def __init__(self, k=None, **kw):
        self.k = k
        self.code = _next_code(k)
        self.solve_statistics = {}
        j = len(_S["calls"]) - 1
        self.obj = _OBJ["vals"][j] if j < len(_OBJ["vals"]) else 1
    def solve(self):
        return self.code == OPT
    def is_solved(self):
        return self.code == OPT
    def get_solution(self):
        if self.code != OPT:
            raise Exception("not solved")
        return {"paths": [["a"]] * self.k, "tag": (self.k, self.code)}
    def get_objective_value(self):
        if self.code != OPT:
            raise Exception("not solved")
        return self.obj
    def get_lowerbound_k(self):
        return 1
    def is_valid_solution(self):
        return True

def check_numpaths(sched: List[int], objs: List[int], first: bool, use_abs: bool) -> bool:
    """
    pre: len(sched) == 5 and len(objs) == 5
    pre: all(0 <= s <= 4 for s in sched)
    pre: all(1 <= o <= 3 for o in objs)
    pre: first or use_abs
    post: _
    """
    _S["sched"] = [1] + sched     # call 0 is the temporary model built for the lower bound
    _S["calls"] = []
    _OBJ["vals"] = [1] + objs
    opt = NumPathsOptimization(model_type=_StubModel, stop_on_first_feasible=True if first else None,
                               stop_on_delta_abs=1 if (use_abs and not first) else None, min_num_paths=1, max_num_paths=5)
    ok = opt.solve()
    if _solved(opt) != bool(ok):
        return False
    if not ok:
        return _raises(opt.get_solution)
    mod = opt.model
    # the returned model must itself have been proven optimal for its k, and the solution must be its own
    return mod.code == OPT and opt.get_solution()["tag"] == (mod.k, OPT)

def check_numpaths_twice(sched1: List[int], sched2: List[int]) -> bool:
    """
    pre: len(sched1) == 3 and len(sched2) == 3
    pre: all(0 <= s <= 4 for s in sched1) and all(0 <= s <= 4 for s in sched2)
    post: _
    """
    # the same object solved twice: what the second run reports must follow from the second run's own statuses
    _S["sched"] = [1] + sched1
    _S["calls"] = []
    _OBJ["vals"] = [1] * 8
    opt = NumPathsOptimization(model_type=_StubModel, stop_on_first_feasible=True, min_num_paths=1, max_num_paths=3)
    opt.solve()
    _S["sched"] = list(sched2)       # the lower bound is cached: no temporary model in the second run
    _S["calls"] = []
    ok = opt.solve()
    if _solved(opt) != bool(ok):
        return False
    if not ok:
        return _raises(opt.get_solution)
    mod = opt.model
    return mod.code == OPT and opt.get_solution()["tag"] == (mod.k, OPT) and (mod.k, OPT) in _S["calls"]

check_numpaths([0, 0, 0, 0, 0], [1, 1, 1, 1, 1], True, False)
'''

ABSTRACT = COMMON + '''
import flowpaths.abstractpathmodeldag as apm
import flowpaths.abstractwalkmodeldigraph as awm
import flowpaths.minsetcover as msc
import flowpaths.minerrorflow as mef
import time as _time

_STAT = ["kOptimal", "kInfeasible", "kTimeLimit", "kInterrupt", "kUnbounded", 2, 3, 9, 11]

class _P(apm.AbstractPathModelDAG):
    def __init__(self):
        self.external_solution_paths = None
        self.solve_statistics = {}
        self.k = 2
        self._is_solved = False
    def get_solution(self):
        self.check_is_solved()
        return {"paths": []}
    def get_lowerbound_k(self):
        return 1
    def is_valid_solution(self):
        return True
    def get_objective_value(self):
        self.check_is_solved()
        return 0

class _FG:
    def get_number_of_nontrivial_SCCs(self):
        return 0
    def get_avg_size_of_non_trivial_SCC(self):
        return 0
    def get_size_of_largest_SCC(self):
        return 0

class _W(awm.AbstractWalkModelDiGraph):
    def __init__(self):
        self.solve_statistics = {}
        self.k = 2
        self._is_solved = False
        self.solve_time_start = 0
        self.G = _FG()
    def get_solution(self):
        self.check_is_solved()
        return {"walks": []}
    def get_lowerbound_k(self):
        return 1
    def is_valid_solution(self):
        return True
    def get_objective_value(self):
        self.check_is_solved()
        return 0

class _St:
    def __init__(self, s):
        self.s = s
    def optimize(self):
        pass
    def get_model_status(self):
        return self.s
    def get_objective_value(self):
        return 0
    def get_values(self, v, binary_values=False):
        return {0: 1, 1: 0}

def _good(s):
    return s == "kOptimal" or s == 2

def check_path_model(si: int, prior: bool) -> bool:
    """
    pre: 0 <= si < 9
    post: _
    """
    m = _P()
    m._is_solved = prior          # a previous successful solve must not leak into a later inconclusive one
    m.solver = _St(_STAT[si])
    ok = m.solve()
    if bool(ok) != _good(_STAT[si]) or bool(m.is_solved()) != _good(_STAT[si]):
        return False
    if not ok:
        return _raises(m.get_solution) and _raises(m.get_objective_value)
    return True

def check_walk_model(si: int, prior: bool) -> bool:
    """
    pre: 0 <= si < 9
    post: _
    """
    m = _W()
    m._is_solved = prior
    m.solver = _St(_STAT[si])
    ok = m.solve()
    if bool(ok) != _good(_STAT[si]) or bool(m.is_solved()) != _good(_STAT[si]):
        return False
    if not ok:
        return _raises(m.get_solution) and _raises(m.get_objective_value)
    return True

def check_set_cover(si: int) -> bool:
    """
    pre: 0 <= si < 5
    post: _
    """
    with NoTracing():
        m = msc.MinSetCover(universe=[1, 2], subsets=[[1], [2]], subset_weights=[1, 1])
    m.solver = _St(_STAT[si])
    ok = m.solve()
    if bool(ok) != (_STAT[si] == "kOptimal"):
        return False
    if not ok:
        return _raises(m.get_solution)
    return m.get_solution() == [0]

def check_error_flow(si: int, prior: bool) -> bool:
    """
    pre: 0 <= si < 5
    post: _
    """
    with NoTracing():
        G = nx.DiGraph()
        G.add_edge("a", "b", flow=1)
        m = mef.MinErrorFlow(G, "flow", weight_type=int)
    m._is_solved = prior
    m.solver = _St(_STAT[si])
    ok = m.solve()
    if bool(ok) != (_STAT[si] == "kOptimal") or bool(m.is_solved()) != bool(ok):
        return False
    if not ok:
        return _raises(m.get_solution)
    return True

check_path_model(0, False); check_walk_model(0, False); check_set_cover(0); check_error_flow(0, False)
'''

WRAPPERS = {
    "MinFlowDecomp": dict(modpath="flowpaths.minflowdecomp", kmod="kflowdecomp", kcls="kFlowDecomp", wcls="MinFlowDecomp", key="paths",
                          edges=[("a", "b", 2), ("b", "c", 1), ("a", "c", 1), ("c", "d", 2), ("b", "d", 1)], ctor=', "flow", weight_type=int', nsched=5),
    "MinFlowDecompCycles": dict(modpath="flowpaths.minflowdecompcycles", kmod="kflowdecompcycles", kcls="kFlowDecompCycles", wcls="MinFlowDecompCycles", key="walks",
                                edges=[("s", "a", 1), ("a", "b", 2), ("b", "a", 1), ("b", "t", 1), ("s", "t", 1)], ctor=', "flow", weight_type=int', nsched=5),
    "MinPathCover": dict(modpath="flowpaths.minpathcover", kmod="kpathcover", kcls="kPathCover", wcls="MinPathCover", key="paths",
                         edges=[("a", "b", 1), ("b", "c", 1), ("a", "c", 1), ("c", "d", 1), ("b", "d", 1)], ctor="", nsched=5),
    "MinPathCoverCycles": dict(modpath="flowpaths.minpathcovercycles", kmod="kpathcovercycles", kcls="kPathCoverCycles", wcls="MinPathCoverCycles", key="walks",
                               edges=[("s", "a", 1), ("a", "b", 1), ("b", "a", 1), ("b", "t", 1), ("s", "t", 1)], ctor="", nsched=5),
}


def wrapper_source(name, timed=False):
    w = WRAPPERS[name]
    if timed:
        clock_patch = "import time as _t\n_wm.time.perf_counter = _clock"
        return COMMON + WRAPPER.format(modpath=w["modpath"], kmod=w["kmod"], kcls=w["kcls"], wcls=w["wcls"], key=w["key"], edges=w["edges"],
                              ctor_args=w["ctor"] + ', solver_options={"time_limit": 10}', nsched=2, timed="True",
                              clock_patch=clock_patch, clock_arg=", ticks: List[int]", clock_warm=", [0] * 5",
                              clock_pre="    pre: len(ticks) == 5\n    pre: all(t == 0 or t == 20 for t in ticks)\n", clock_init="list(ticks)")
    return COMMON + WRAPPER.format(modpath=w["modpath"], kmod=w["kmod"], kcls=w["kcls"], wcls=w["wcls"], key=w["key"], edges=w["edges"],
                          ctor_args=w["ctor"], nsched=w["nsched"], timed="False", clock_patch="", clock_arg="", clock_warm="", clock_pre="", clock_init="[]")


def gen_tasks(tier, seed):
    tasks = []
    for name in WRAPPERS:
        tasks.append({"kind": "xh", "name": name, "src": "wrapper", "timed": False})
    for name in ("MinFlowDecompCycles", "MinFlowDecomp"):
        tasks.append({"kind": "xh", "name": name + "+clock", "src": "wrapper", "timed": True, "wname": name})
    tasks.append({"kind": "xh", "name": "MinGenSet", "src": "mingenset"})
    tasks.append({"kind": "xh", "name": "NumPathsOptimization", "src": "numpaths"})
    tasks.append({"kind": "xh", "name": "abstract-solve", "src": "abstract"})
    # concrete cross-check through the real classes: inject a status at one call of the real search
    inst = [
        ("MinFlowDecomp", {"edges": [("a", "b", 2), ("b", "c", 1), ("a", "c", 1), ("c", "d", 2), ("b", "d", 1)], "kwargs": {"weight_type": "int", "optimization_options": {"optimize_with_greedy": False, "lowerbound_k": 1}}}),
        ("MinFlowDecomp", {"edges": [("a", "b", 2), ("b", "c", 1), ("a", "c", 1), ("c", "d", 2), ("b", "d", 1)], "kwargs": {"weight_type": "int", "optimization_options": {"optimize_with_greedy": False, "use_min_gen_set_lowerbound": True}}}),
        ("MinFlowDecompCycles", {"edges": [("s", "a", 1), ("a", "b", 3), ("b", "a", 2), ("b", "t", 1), ("a", "a", 1)], "kwargs": {"weight_type": "int", "optimization_options": {"use_min_gen_set_lowerbound": True}}}),
        ("MinFlowDecompCycles", {"edges": [("s", "a", 1), ("a", "b", 3), ("b", "a", 2), ("b", "t", 1), ("a", "a", 1)], "kwargs": {"weight_type": "int"}}),
        ("MinPathCover", {"edges": [("a", "b"), ("a", "c"), ("b", "d"), ("c", "d"), ("a", "d")], "kwargs": {}}),
        ("MinPathCoverCycles", {"edges": [("s", "a"), ("s", "b"), ("a", "a"), ("b", "b"), ("a", "t"), ("b", "t")], "kwargs": {}}),
        ("MinGenSet", {"numbers": [1, 2, 4, 8], "total": 15}),
        # single k-models (one solver invocation): solved only if that run proved optimality
        ("kFlowDecomp", {"edges": [("a", "b", 2), ("b", "c", 1), ("a", "c", 1), ("c", "d", 2), ("b", "d", 1)], "kwargs": {"k": 3, "weight_type": "int", "optimization_options": {"optimize_with_greedy": False}}}),
        ("kMinPathError", {"edges": [("a", "b", 2), ("b", "c", 1), ("a", "c", 3), ("c", "d", 2), ("b", "d", 1)], "kwargs": {"k": 2, "weight_type": "int"}}),
        ("kLeastAbsErrorsCycles", {"edges": [("s", "a", 1), ("a", "b", 3), ("b", "a", 2), ("b", "t", 1)], "kwargs": {"k": 1, "weight_type": "int"}}),
        ("kPathCoverCycles", {"edges": [("s", "a"), ("a", "b"), ("b", "a"), ("b", "t")], "kwargs": {"k": 1}}),
        ("MinSetCover", {"universe": [1, 2, 3], "subsets": [[1, 2], [2, 3], [3]]}),
        ("NumPathsOptimization", {"edges": [("s", "a", 5), ("a", "t", 4), ("s", "b", 3), ("b", "t", 3), ("s", "c", 2), ("c", "t", 1)]}),
        # two-phase solve (few distinct flow values): an inconclusive second phase must leave the model unsolved and the getters raising
        ("MinErrorFlow", {"edges": [("s", "a", 5), ("a", "b", 3), ("a", "c", 4), ("b", "t", 3), ("c", "t", 1)], "kwargs": {"weight_type": "int", "few_flow_values_epsilon": 0.5}}),
    ]
    for cls, spec_ in inst:
        for status in ("kTimeLimit", "kInterrupt", "kUnknown", "kUnboundedOrInfeasible", "kSolutionLimit", "custom-alarm"):
            tasks.append({"kind": "inject", "cls": cls, "spec": spec_, "status": status})
    tasks.append({"kind": "getters"})
    for i, t in enumerate(tasks):
        t["tid"] = i
    return tasks


def _getters_task(task, res):
    """models that are not solved (never solved, or solve() returned False on an infeasible instance) must raise from the getters"""
    import flowpaths as fp
    import networkx as nx
    res["functions"] = ["get_solution/get_objective_value of every model class before solve() and after an unsuccessful solve()"]
    def g(edges):
        G_ = nx.DiGraph()
        for (u, v, f) in edges:
            G_.add_edge(u, v, flow=f)
        return G_
    D = [("a", "b", 3), ("a", "c", 2), ("b", "d", 2), ("c", "d", 3), ("b", "c", 1)]
    Dh = [(u, v, f / 2) for (u, v, f) in D]                      # fractional flow: no integer-weighted decomposition
    C = [("s", "a", 2), ("a", "b", 3), ("b", "a", 1), ("b", "t", 2), ("a", "a", 1)]
    mk = [("kFlowDecomp:k-too-small", lambda: fp.kFlowDecomp(g(D), "flow", k=1, weight_type=int)),
          ("kFlowDecomp:int-weights-fractional-flow", lambda: fp.kFlowDecomp(g(Dh), "flow", k=3, weight_type=int)),
          ("kFlowDecomp:int-weights-fractional-flow-k5", lambda: fp.kFlowDecomp(g(Dh), "flow", k=5, weight_type=int)),
          ("MinFlowDecomp:int-weights-fractional-flow", lambda: fp.MinFlowDecomp(g(Dh), "flow", weight_type=int)),
          ("kFlowDecompCycles:k-too-small", lambda: fp.kFlowDecompCycles(g([("s", "a", 1), ("s", "b", 2), ("a", "t", 1), ("b", "t", 2)]), "flow", k=1, weight_type=int)),
          ("kPathCover:k-too-small", lambda: fp.kPathCover(g(D), k=1)), ("kPathCoverCycles:k-too-small", lambda: fp.kPathCoverCycles(g([("s", "a", 1), ("s", "b", 2), ("a", "t", 1), ("b", "t", 2)]), k=1)),
          ("kLeastAbsErrors:valid", lambda: fp.kLeastAbsErrors(g(D), "flow", k=2, weight_type=int)), ("kMinPathErrorCycles:valid", lambda: fp.kMinPathErrorCycles(g(C), "flow", k=2, weight_type=int)),
          ("MinErrorFlow:valid", lambda: fp.MinErrorFlow(g(D), "flow", weight_type=int)), ("MinGenSet:valid", lambda: fp.MinGenSet([1, 2, 4], total=7, weight_type=int)),
          ("MinSetCover:no-cover", lambda: fp.MinSetCover([1, 2, 3], [[1], [2]]))]
    def gives_data(m):
        out = []
        for nm in ("get_solution", "get_objective_value"):
            f = getattr(m, nm, None)
            if f is None:
                continue
            try:
                r = f()
                if r is not None:
                    out.append(nm)
            except Exception:
                pass
        return out
    for name, make in mk:
        res["obligations"] += 1
        res["nontrivial"] += 1
        try:
            m = make()
        except Exception as e:
            res["discharged"] += 1            # rejected at construction: nothing to hand out
            continue
        bad = None
        d0 = gives_data(m) if not _solved_safe(m) else []
        if d0:
            bad = f"before solve(): {d0} returned data"
        else:
            try:
                ok = m.solve()
            except Exception:
                ok = False
            if not ok and not _solved_safe(m):
                d1 = gives_data(m)
                if d1:
                    bad = f"after solve() returned False: {d1} returned data"
        if bad:
            res["violations"].append({"signature": f"{name.split(':')[0]}:getters-return-data-although-not-solved", "summary": f"{name}: {bad}", "replay": {"task": task}})
        else:
            res["discharged"] += 1
    res["samples"].append({"obligation": "not solved => get_solution()/get_objective_value() raise", "instances": [n for n, _ in mk]})
    return res


def _src(task):
    if task["src"] == "wrapper":
        return wrapper_source(task.get("wname", task["name"]), task.get("timed", False))
    return {"mingenset": MINGENSET, "numpaths": NUMPATHS, "abstract": ABSTRACT}[task["src"]]


def run_task(task):
    res = new_result()
    res["evaluations"] = 1
    if task["kind"] == "getters":
        return _getters_task(task, res)
    if task["kind"] == "inject":
        return _inject_task(task, res)
    res["functions"] = {"wrapper": [f"{task['name']}.solve"], "mingenset": ["MinGenSet.solve"], "numpaths": ["NumPathsOptimization.solve"],
                        "abstract": ["AbstractPathModelDAG.solve/check_is_solved", "AbstractWalkModelDiGraph.solve/check_is_solved", "MinSetCover.solve", "MinErrorFlow.solve"]}[task["src"]]
    src = _src(task)
    out, cpu = xh.run_module(src, f"c13_{task['tid']}", per_condition_timeout=task["timeout"])
    res["solver_s"] += cpu
    for fn, v in out.items():
        res["queries"] += 1
        if fn.startswith("twin"):
            if v["verdict"] != "counterexample":
                res["inconclusive"] += 1
                res["extra"]["vacuity_twin_not_refuted"] = res["extra"].get("vacuity_twin_not_refuted", 0) + 1
            continue
        res["obligations"] += 1
        res["nontrivial"] += 1
        res["samples"].append({"harness": task["name"], "function": fn, "symbolic": "outcome sequence (status per solver invocation)" + (", clock increments" if task.get("timed") else ""),
                               "verdict": v["verdict"], "cpu_s": round(cpu, 1)})
        if v["verdict"] == "confirmed":
            res["discharged"] += 1
        elif v["verdict"] == "counterexample":
            call = xh.parse_call(v["message"])
            res["violations"].append({"signature": f"{task['name']}:{_diag(task, call)}", "summary": v["message"][:220],
                                      "replay": {"task": task, "call": call, "message": v["message"]}})
        elif v["verdict"] == "error":
            res["harness_errors"].append(f"crosshair failed on {task['name']}.{fn}: {v['message'][-800:]}")
        else:
            res["inconclusive"] += 1
            res["extra"]["inconclusive_kinds"] = [f"{task['name']}.{fn}:{v['verdict']}"]
    return res


def _diag(task, call):
    if not call:
        return "counterexample"
    fn, pos, kw = call
    if fn == "check_numpaths_twice":
        return "second-solve-on-the-same-object:solved-state-differs-from-its-own-status-sequence"
    if fn == "check_search_twice":
        return "second-solve-on-the-same-object:decision-differs-from-its-own-status-sequence"
    sched = kw.get("sched", pos[0] if pos else None)
    if task["src"] == "mingenset" and isinstance(sched, list):
        for s in sched:
            if s == 1:
                continue
            if s in (2, 3, 4):
                return "search-continues-after-inconclusive-status"
            break
    if isinstance(sched, list):
        for s in sched:
            if s == 1:
                continue
            if s in (2, 3, 4):
                return "inconclusive-status-not-reported-as-unsolved"
            break
    return "counterexample"


def _inject_task(task, res):
    """real classes, status injected at call j of the search for every j: must end not solved, getters raise"""
    cls = task["cls"]
    res["functions"] = [f"{cls}.solve (real k-models, status injected at the highspy boundary)"]
    # honest run to learn the number of solver invocations
    alarm = task["status"] == "custom-alarm"
    so = {"use_also_custom_timeout": True, "time_limit": 300} if alarm else None

    def build():
        if cls == "MinGenSet":
            import flowpaths as fp
            return fp.MinGenSet(task["spec"]["numbers"], total=task["spec"]["total"], weight_type=int, **({"solver_options": dict(so)} if so else {}))
        if cls == "NumPathsOptimization":
            import flowpaths as fp
            import networkx as nx
            G_ = nx.DiGraph()
            for (u, v, f) in task["spec"]["edges"]:
                G_.add_edge(u, v, flow=f)
            return fp.NumPathsOptimization(model_type=fp.kLeastAbsErrors, stop_on_delta_abs=1, min_num_paths=1, max_num_paths=4, G=G_, flow_attr="flow", weight_type=int,
                                           **({"solver_options": dict(so)} if so else {}))
        if cls == "MinSetCover":
            import flowpaths as fp
            return fp.MinSetCover(task["spec"]["universe"], task["spec"]["subsets"], **({"solver_options": dict(so)} if so else {}))
        t = {"cls": cls, "edges": task["spec"]["edges"], "kwargs": {**task["spec"]["kwargs"], **({"solver_options": dict(so)} if so else {})}}
        return models.construct(t)[0]
    with hx.capture() as sess:
        m = build()
        ok0 = m.solve()
    n = len(sess.snaps)
    size0 = _sol_size(m) if ok0 else None
    # invocations that belong to the min-generating-set lower-bound helper of a flow-decomposition search (not a "k" of the search)
    helper = [cls != "MinGenSet" and any(nm.startswith("gen_set") for nm in lp.col_names) for lp in sess.snaps]
    for j in range(n):
        def answers(idx, lp, h, j=j):
            if idx == j and alarm:
                return {"alarm": True, "skip_native": False}      # the run completes natively, but the custom timeout fired meanwhile
            if idx == j:
                return {"status": task["status"], "skip_native": True}
            return None
        exited = False
        with hx.capture(answers) as sess2:
            m = build()
            try:
                ok = m.solve()
            except SystemExit:
                ok, exited = False, True
        res["obligations"] += 1
        res["extra"]["traces_validated_against_impl"] = res["extra"].get("traces_validated_against_impl", 0) + 1
        bad = None
        if exited:
            bad = f"status {task['status']} at solver invocation {j} of {n}: solve() terminated the calling process (SystemExit) instead of reporting not-solved"
            res["violations"].append({"signature": f"{cls}:process-exit-on-inconclusive-status", "summary": bad, "replay": {"task": task, "j": j}})
            continue
        if helper[j] and (ok or _solved_safe(m)) and _sol_size(m) == size0:
            # an inconclusive lower-bound helper only weakens the starting k: the search itself still proved every smaller k
            # infeasible, so the answer is the proven minimum (same size as the undisturbed run) -- what the property protects
            res["extra"]["helper_run_inconclusive_same_minimum"] = res["extra"].get("helper_run_inconclusive_same_minimum", 0) + 1
            res["discharged"] += 1
            continue
        if ok or _solved_safe(m):
            bad = f"status {task['status']} at solver invocation {j} of {n}: search still reports solved"
        else:
            try:
                m.get_solution()
                bad = f"status {task['status']} at invocation {j}: get_solution() returned data although not solved"
            except Exception:
                pass
        if bad:
            sig = "search-continues-after-inconclusive-status" if cls == "MinGenSet" else "inconclusive-status-not-reported-as-unsolved"
            res["violations"].append({"signature": f"{cls}:{sig}", "summary": bad, "replay": {"task": task, "j": j}})
        else:
            res["discharged"] += 1
    # the same object solved twice: an inconclusive second run must not keep the solved state of the first
    if task["status"] != "custom-alarm":
        for j in sorted({0, n - 1}):
            if helper[j]:
                continue
            m = build()
            with hx.capture():
                ok1 = m.solve()
            if not ok1:
                continue
            hit = []

            def answers2(idx, lp, h, j=j, hit=hit):
                if idx == j:
                    hit.append(1)
                    return {"status": task["status"], "skip_native": True}
                return None
            try:
                with hx.capture(answers2):
                    ok2 = m.solve()
            except SystemExit:
                ok2 = False
            if not hit:
                continue          # the second run needed fewer solver invocations (cached bounds): nothing was injected
            res["obligations"] += 1
            res["extra"]["traces_validated_against_impl"] = res["extra"].get("traces_validated_against_impl", 0) + 1
            if ok2 or _solved_safe(m):
                res["violations"].append({"signature": f"{cls}:stale-solved-state-after-inconclusive-re-solve",
                                          "summary": f"solved once, then solve() again with status {task['status']} at invocation {j}: solve() returned {ok2}, is_solved() still reports solved", "replay": {"task": task, "j": j, "resolve": True}})
            else:
                data_out = None
                try:
                    data_out = m.get_solution()
                except Exception:
                    pass
                if data_out is not None:
                    res["violations"].append({"signature": f"{cls}:getters-return-data-after-inconclusive-re-solve",
                                              "summary": f"solved once, then solve() again with status {task['status']} at invocation {j}: not solved, but get_solution() still returns the first run's data", "replay": {"task": task, "j": j, "resolve": True}})
                else:
                    res["discharged"] += 1
    res["nontrivial"] += 1 if n >= 2 else 0
    return res


def replay(data):
    task = data["task"]
    if task["kind"] == "getters":
        res = new_result()
        _getters_task(task, res)
        for v in res["violations"]:
            print("  replay:", v["summary"])
        return bool(res["violations"])
    if task["kind"] == "inject":
        res = new_result()
        _inject_task(task, res)
        for v in res["violations"]:
            print("  replay:", v["summary"])
        return bool(res["violations"])
    call = data.get("call")
    if not call:
        print("  replay: could not parse CrossHair's counterexample:", data.get("message"))
        return False
    fn, pos, kw = call
    r = xh.call_concretely(_src(task), "c13_replay", fn, pos, kw)
    print(f"  replay: {task['name']}: {fn}({pos}, {kw}) -> {r}")
    return r is False


RULE = ("one case = one search loop / abstract solve() executed by CrossHair over every outcome sequence (5 statuses x <= 5 invocations) or one real-class run with a status "
        "injected at invocation j; non-trivial = all of them; discharged = 'Confirmed over all paths' with the reachability twin refuted, or every j behaves")
ASSUMPTIONS = [
    "k-model stubs expose exactly the members the wrappers use (is_solved, solve, get_solution, solver.get_model_status, solve_statistics); the injected runs on the real classes validate this",
    "status alphabet: kOptimal, kInfeasible, kTimeLimit, kInterrupt, raw int 11; <= 5 solver invocations per search",
    "clock: perf_counter replaced by a stub advancing by symbolic increments in {0, 20} (first 5 clock readings symbolic, 2 solver invocations) against a time limit of 10 (MinFlowDecomp[Cycles])",
    "logging disabled inside the harness (LogRecord creation calls time.time(), which CrossHair models as nondeterministic)",
]


def main(tier, seed):
    t0 = time.time()
    tasks = gen_tasks(tier, seed)
    for t in tasks:
        t["timeout"] = 50 if tier == "quick" else 300
    acc = core.run_tasks(run_task, tasks, deadline_s=170 if tier == "quick" else 1500)
    bounds = {"invocations_max": 5, "statuses": 5, "per_condition_timeout_s": tasks[0]["timeout"]}
    return core.finish(PID, tier, seed, LEVEL, acc, t0, RULE, ASSUMPTIONS, bounds, replay)


def _sol_size(m):
    try:
        sol = m.get_solution()
    except Exception:
        return None
    if isinstance(sol, dict):
        return len(sol.get("paths", sol.get("walks", [])))
    return len(sol)


def _solved_safe(m):
    try:
        return bool(m.is_solved())
    except Exception:
        return False
