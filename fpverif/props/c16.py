"""C16 -- MinErrorFlow returns a closest non-negative flow on the same graph."""
from __future__ import annotations

import random
import time
from fractions import Fraction

import networkx as nx
import z3

import flowpaths as fp
from .. import core, hx, instances as I, models, smt
from ..core import HarnessError, new_result

PID = "C16"
LEVEL = "translation_validation"
DELTA = Fraction(1, 10 ** 6)


def gen_tasks(tier, seed):
    rng = random.Random(seed + 16)
    tasks = []
    graphs = [(n, es, False) for n, es in I.dag_graphs(tier, rng, quick_n=8, thorough_n5=300)] + [(n, es, True) for n, es in I.digraphs(tier, rng, quick_n=8, thorough_n=200)]
    for name, es, cyc in graphs:
        G = nx.DiGraph(es)
        inner = [v for v in G.nodes() if G.in_degree(v) > 0 and G.out_degree(v) > 0]
        for rep in range(1 if tier == "quick" else 2):
            w = {e: rng.choice((0, 1, 2, 3, 4)) for e in es}
            if not any(w.values()):
                w[es[0]] = 2
            base = {"name": name, "edges": I.with_flow(es, w), "cyc": cyc, "starts": [], "ends": [], "ignored": [], "scaling": None, "node_mode": False, "lam": 0, "eps": None}
            tasks.append({**base, "wt": "int"})
            # structured weights, every edge in turn (not sampled: a bottleneck must be hit whatever the seed)
            for estar in (es if rep == 0 else []):
                tasks.append({**base, "wt": "int", "edges": [(u, v, 1 if (u, v) == estar else 10) for (u, v) in es]})
                tasks.append({**base, "wt": "float", "edges": [(u, v, 10 if (u, v) == estar else 1) for (u, v) in es]})
            # a node that is both an additional start and an additional end
            if inner:
                vb = rng.choice(inner)
                tasks.append({**base, "wt": "int", "starts": [vb], "ends": [vb]})
            tasks.append({**base, "wt": "float"})
            tasks.append({**base, "wt": "float", "edges": [(u, v, f * 0.5) for (u, v, f) in base["edges"]]})
            e0 = rng.choice(es)
            tasks.append({**base, "wt": "int", "ignored": [list(e0)]})
            tasks.append({**base, "wt": "int", "scaling": [[list(e0), 0.5]]})
            tasks.append({**base, "wt": "int", "scaling": [[list(e0), 0]]})
            if inner:
                v, x = rng.choice(inner), rng.choice(inner)
                tasks.append({**base, "wt": "int", "starts": [v], "ends": [x]})
            if not cyc:
                tasks.append({**base, "wt": "float", "lam": 0.5})
            tasks.append({**base, "wt": "int", "eps": rng.choice([0.1, 1])})
            nf = {v: rng.choice((0, 1, 2, 3)) for v in G.nodes()}
            tasks.append({**base, "wt": "int", "edges": es, "node_flow": nf, "node_mode": True})
            tasks.append({**base, "wt": "int", "edges": es, "node_flow": nf, "node_mode": True, "eps": 0.5})
            # node-weighted with additional starts / ends (structured values: the end node's own value differs from its neighbours')
            if inner:
                for v_ in (inner if rep == 0 else inner[:1]):
                    nf2 = {x: (4 if x == v_ else 10 if x in G.predecessors(v_) else 4) for x in G.nodes()}
                    tasks.append({**base, "wt": "int", "edges": es, "node_flow": nf2, "node_mode": True, "ends": [v_]})
                    tasks.append({**base, "wt": "int", "edges": es, "node_flow": {x: (4 if x == v_ else 10 if x in G.successors(v_) else 4) for x in G.nodes()}, "node_mode": True, "starts": [v_]})
                    tasks.append({**base, "wt": "float", "edges": es, "node_flow": nf, "node_mode": True, "starts": [v_], "ends": [rng.choice(inner)]})
    # self loops at nodes that have no other incoming (or no other outgoing) edge: such a node has incoming and outgoing edges,
    # so conservation applies (its other edges must carry 0); only MinErrorFlow accepts these graphs
    for name, edges in (("loop_at_first_and_last", [("v", "v", 5), ("v", "w", 3), ("w", "x", 4), ("x", "w", 1), ("x", "y", 3), ("y", "z", 6), ("z", "z", 2)]),
                        ("loop_at_first", [("v", "v", 2), ("v", "w", 3), ("w", "t", 3)]), ("loop_at_last", [("s", "w", 3), ("w", "z", 3), ("z", "z", 4)])):
        for wt in ("int", "float"):
            tasks.append({"name": name, "edges": edges, "cyc": True, "starts": [], "ends": [], "ignored": [], "scaling": None, "node_mode": False, "lam": 0, "eps": None, "wt": wt})
    for i, t in enumerate(tasks):
        t["tid"] = i
    return tasks


def _scaling(task):
    return {(tuple(k) if isinstance(k, list) else k): v for k, v in (task["scaling"] or [])}


def _kwargs(task):
    kw = {"weight_type": int if task["wt"] == "int" else float}
    if task["ignored"]:
        kw["elements_to_ignore"] = [tuple(e) if isinstance(e, list) else e for e in task["ignored"]]
    if task["scaling"]:
        kw["error_scaling"] = _scaling(task)
    if task["starts"]:
        kw["additional_starts"] = task["starts"]
    if task["ends"]:
        kw["additional_ends"] = task["ends"]
    if task["lam"]:
        kw["sparsity_lambda"] = task["lam"]
    if task["eps"]:
        kw["few_flow_values_epsilon"] = task["eps"]
    if task["node_mode"]:
        kw["flow_attr_origin"] = "node"
    return kw


def build(task):
    G = models.graph_of(task)
    return fp.MinErrorFlow(G, "flow", **_kwargs(task)), G


def spec(task, G):
    """corrected values x on the weighted elements (edges, or nodes in node mode); returns (vars, cons, objective)"""
    mk = z3.Int if task["wt"] == "int" else z3.Real
    sc = _scaling(task)
    ign = {tuple(e) if isinstance(e, list) else e for e in task["ignored"]} | {k for k, v in sc.items() if v == 0}
    cons = []
    if task["node_mode"]:
        # flow lives on nodes; edges carry free non-negative flow between them
        xv = {v: mk(f"x_{v}") for v in G.nodes()}
        ye = {e: mk(f"y_{e[0]}_{e[1]}") for e in G.edges()}
        cons += [x >= 0 for x in xv.values()] + [y >= 0 for y in ye.values()]
        for v in G.nodes():
            ins = [ye[(u, v)] for u in G.predecessors(v)]
            outs = [ye[(v, w)] for w in G.successors(v)]
            if ins and v not in task["starts"]:
                cons.append(z3.Sum(ins) == xv[v])
            elif ins:
                cons.append(z3.Sum(ins) <= xv[v])
            if outs and v not in task["ends"]:
                cons.append(z3.Sum(outs) == xv[v])
            elif outs:
                cons.append(z3.Sum(outs) <= xv[v])
        dem = [(v, G.nodes[v]["flow"]) for v in G.nodes() if "flow" in G.nodes[v] and v not in ign]
        xs = xv
    else:
        xe = {e: mk(f"x_{e[0]}_{e[1]}") for e in G.edges()}
        cons += [x >= 0 for x in xe.values()]
        for v in G.nodes():
            ins = [xe[(u, v)] for u in G.predecessors(v)]
            outs = [xe[(v, w)] for w in G.successors(v)]
            if not ins or not outs:
                continue
            if v in task["starts"] and v in task["ends"]:
                continue
            if v in task["starts"]:
                cons.append(z3.Sum(ins) <= z3.Sum(outs))
            elif v in task["ends"]:
                cons.append(z3.Sum(ins) >= z3.Sum(outs))
            else:
                cons.append(z3.Sum(ins) == z3.Sum(outs))
        dem = [(e, G[e[0]][e[1]]["flow"]) for e in G.edges() if "flow" in G[e[0]][e[1]] and e not in ign]
        xs = xe
    terms = []
    for j, (e, f) in enumerate(dem):
        er = z3.Real(f"er{j}")
        cons += [er >= smt.q(f) - xs[e], er >= xs[e] - smt.q(f)]
        terms.append(smt.q(sc.get(e, 1)) * er)
    obj = z3.Sum(terms) if terms else z3.RealVal(0)
    if task["lam"] and not task["node_mode"]:
        srcs = [v for v in G.nodes() if G.in_degree(v) == 0 or v in task["starts"]]
        outflow = []
        for v in srcs:
            ins = [xs[(u, v)] for u in G.predecessors(v)]
            outs = [xs[(v, w)] for w in G.successors(v)]
            outflow.append((z3.Sum(outs) if outs else 0) - (z3.Sum(ins) if ins else 0))
        obj = obj + smt.q(task["lam"]) * z3.Sum(outflow)
    return xs, cons, obj, dem


def output_problems(task, G, sol):
    """plain check of what MinErrorFlow returns; returns (problems, recomputed scaled error)"""
    H = sol["graph"]
    pr = []
    sc = _scaling(task)
    ign = {tuple(e) if isinstance(e, list) else e for e in task["ignored"]} | {k for k, v in sc.items() if v == 0}
    if set(H.nodes()) != set(G.nodes()) or set(H.edges()) != set(G.edges()):
        pr.append(("graph-changed", f"corrected graph has different nodes/edges"))
        return pr, None
    tot_scaled = Fraction(0)
    tot_plain = Fraction(0)
    tol = 0 if task["wt"] == "int" else DELTA
    if task["node_mode"]:
        for v in G.nodes():
            if "flow" in G.nodes[v]:
                x = H.nodes[v].get("flow")
                if x is None or x < -tol:
                    pr.append(("negative-or-missing", f"node {v}: {x}"))
                    continue
                if v not in ign:
                    d = abs(Fraction(x).limit_denominator(10 ** 9) - Fraction(G.nodes[v]["flow"]))
                    tot_plain += d
                    tot_scaled += Fraction(sc.get(v, 1)) * d
    else:
        for (u, v) in G.edges():
            x = H[u][v].get("flow")
            if "flow" in G[u][v]:
                if x is None or x < -tol:
                    pr.append(("negative-or-missing", f"edge ({u},{v}): {x}"))
                    continue
                if task["wt"] == "int" and not isinstance(x, int):
                    pr.append(("value-type", f"edge ({u},{v}): {x!r} is not an int"))
                if (u, v) not in ign:
                    d = abs(Fraction(x).limit_denominator(10 ** 9) - Fraction(G[u][v]["flow"]))
                    tot_plain += d
                    tot_scaled += Fraction(sc.get((u, v), 1)) * d
        for v in G.nodes():
            if G.in_degree(v) == 0 or G.out_degree(v) == 0:
                continue
            if any("flow" not in H[a][b] for (a, b) in list(H.in_edges(v)) + list(H.out_edges(v))):
                continue
            i_ = sum(Fraction(H[a][b]["flow"]).limit_denominator(10 ** 9) for (a, b) in H.in_edges(v))
            o_ = sum(Fraction(H[a][b]["flow"]).limit_denominator(10 ** 9) for (a, b) in H.out_edges(v))
            ok = abs(i_ - o_) <= tol * 10
            if v in task["starts"] and i_ <= o_ + tol * 10:
                ok = True
            if v in task["ends"] and i_ >= o_ - tol * 10:
                ok = True
            if not ok:
                pr.append(("conservation", f"node {v}: inflow {float(i_)} != outflow {float(o_)}"))
    rep = Fraction(sol["error"]).limit_denominator(10 ** 9)
    if abs(rep - tot_plain) > tol * 20 + (0 if task["wt"] == "int" else DELTA):
        pr.append(("reported-error-differs", f"reported error {sol['error']}, recomputed total absolute change {float(tot_plain)}"))
    return pr, tot_scaled


def run_task(task):
    res = new_result()
    res["functions"] = ["MinErrorFlow.__init__/_encode_flow/_encode_min_sum_errors_objective/solve/get_solution/get_corrected_graph", "MinErrorFlow._encode_different_flow_values_and_objective"]
    res["evaluations"] = 1
    desc = {k: task.get(k) for k in ("name", "edges", "node_flow", "wt", "ignored", "scaling", "starts", "ends", "lam", "eps", "node_mode")}
    try:
        with hx.capture() as sess:
            m, G = build(task)
            ok = m.solve()
    except Exception as e:
        res["obligations"] += 1
        res["violations"].append({"signature": f"MinErrorFlow:raised-{type(e).__name__}", "summary": f"{task['name']}: {type(e).__name__}: {e}", "replay": {"task": task}})
        return res
    res["obligations"] += 1
    if not ok:
        # the program that was handed to HiGHS is the library's artefact: if z3 finds it feasible although HiGHS said
        # infeasible, the solver (not flowpaths) is at fault -- outside the claim (DESIGN section 10), counted inconclusive
        last = sess.snaps[-1]
        if last.honest_status == "kInfeasible" and smt.feasible(last, timeout_ms=60000)[0] == "sat":
            res["inconclusive"] += 1
            res["extra"]["highs_declared_feasible_program_infeasible"] = res["extra"].get("highs_declared_feasible_program_infeasible", 0) + 1
            if len(res["samples"]) < 2:
                res["samples"].append({"note": "HiGHS (presolve) reported kInfeasible for a program that z3 proves feasible; not attributed to flowpaths", "instance": desc})
            return res
        res["violations"].append({"signature": "MinErrorFlow:not-solved", "summary": f"{task['name']}: statuses {[lp.honest_status for lp in sess.snaps]}", "replay": {"task": task}})
        return res
    res["discharged"] += 1
    lp1 = sess.snaps[0]
    if models.check_honest_against_lp(lp1):
        raise HarnessError("translator validation failed")
    res["extra"]["programs"] = 1
    o1 = Fraction(lp1.honest_obj).limit_denominator(10 ** 6)
    res["nontrivial"] += 1 if o1 > 0 else 0
    is_exact = task["wt"] == "int" and not any(v not in (0, 1) for _k, v in (task["scaling"] or [])) and not task["lam"]
    delta = 0 if is_exact else DELTA
    # LP optimum certified, then compared with the spec optimum
    enc = smt.Enc(lp1)
    res["obligations"] += 1
    v, _ = smt.certify_optimum(enc.cons, enc.min_obj, o1, max(delta, Fraction(1, 10 ** 7)))
    if v == "equal":
        res["discharged"] += 1
    elif v == "unknown":
        res["inconclusive"] += 1
    else:
        raise HarnessError(f"z3 optimum of the captured LP differs from HiGHS's ({v})")
    xs, scons, sobj, dem = spec(task, G)
    res["obligations"] += 1
    v, mdl = smt.certify_optimum(scons, sobj, o1, delta, 90000)
    res["samples"].append({"obligation": "certified optimum of the captured phase-1 LP == optimum of the direct definition (non-negative conserving flow minimising the scaled L1 change)", "instance": desc, "lp_optimum": float(o1), "verdict": v})
    if v == "equal":
        res["discharged"] += 1
    elif v == "unknown":
        res["inconclusive"] += 1
    else:
        res["extra"]["disagreements_checked"] = res["extra"].get("disagreements_checked", 0) + 1
        sig = "optimum-above-true-optimum" if v == "lower_exists" else "optimum-below-true-optimum"
        why = ""
        if task["cyc"] and (task["starts"] or task["ends"]):
            why = ":additional-starts/ends-ignored-on-cyclic-graphs"
        res["violations"].append({"signature": f"MinErrorFlow:{sig}{why}", "summary": f"{task['name']}: model optimum {float(o1)}, spec {'finds ' + str(float(smt.fr_of(mdl, sobj))) if mdl is not None else 'cannot reach it'}",
                                  "replay": {"task": task}})
    # what the public API returns
    sol = m.get_solution()
    res["obligations"] += 1
    pr, tot_scaled = output_problems(task, G, sol)
    if not pr and tot_scaled is not None:
        bound = o1 if not task["eps"] else o1 * (1 + Fraction(task["eps"]))
        lam_term = 0
        if tot_scaled > bound + DELTA * 10 and not task["lam"]:
            pr.append(("returned-flow-worse-than-optimum" if not task["eps"] else "returned-flow-exceeds-(1+eps)-budget", f"scaled change of the returned graph {float(tot_scaled)} > {float(bound)}"))
    if pr:
        res["violations"].append({"signature": f"MinErrorFlow:{pr[0][0]}", "summary": f"{task['name']}: {pr[0][1]}", "replay": {"task": task}})
    else:
        res["discharged"] += 1
    # phase 2 (few flow values): every answer of LP_2 stays within the (1+eps) budget
    if task["eps"] and len(sess.snaps) >= 2:
        lp2 = sess.snaps[1]
        res["extra"]["programs"] += 1
        enc2 = smt.Enc(lp2)
        names = lp2.col_names
        errcols = [j for j, nm in enumerate(names) if nm.startswith("edge_error_vars")]
        sc = {}
        s2 = enc2.solver(60000)
        # scaled error of LP_2's error columns (the columns are in edge order)
        edges = list(m.G.edges())
        terms = []
        for j, e in zip(errcols, edges):
            if e in m.edges_to_ignore:
                continue
            terms.append(smt.q(m.edge_error_scaling.get(e, 1)) * enc2.xs[j])
        res["obligations"] += 1
        r = smt.check(s2, z3.Sum(terms) > smt.q(o1 * (1 + Fraction(task["eps"])) + DELTA))
        if r == "unsat":
            res["discharged"] += 1
        elif r == "unknown":
            res["inconclusive"] += 1
        else:
            res["violations"].append({"signature": "MinErrorFlow:phase2-LP-admits-error-above-budget", "summary": f"{task['name']}: eps={task['eps']}", "replay": {"task": task}})
    return res


def replay(data):
    r = run_task(data["task"])
    for v in r["violations"]:
        print("  replay:", v["signature"], v["summary"][:300])
    return bool(r["violations"])


RULE = ("one case = (digraph, non-negative weights, type, ignore/scaling/starts/ends/lambda/epsilon/node mode); non-trivial = optimum > 0; programs = captured LPs (phase 1, and phase 2 when epsilon > 0)")
ASSUMPTIONS = [
    "spec: x >= 0 of the requested type, conservation at nodes with incoming and outgoing edges (additional starts may emit, additional ends may absorb), minimise sum scale*|f-x| over non-ignored elements (+ lambda * source outflow on DAGs)",
    "optimum equality by two z3 decision queries per side with HiGHS's optimum as candidate (itself certified on the captured LP)",
    "weights 0..4, DAGs <= 4 (5) nodes, digraphs <= 3 inner nodes; reported 'error' is compared with the unscaled total absolute change of the non-ignored elements",
]


def main(tier, seed):
    t0 = time.time()
    tasks = gen_tasks(tier, seed)
    acc = core.run_tasks(run_task, tasks, deadline_s=170 if tier == "quick" else 1500)
    bounds = {"dag_nodes_max": 4 if tier == "quick" else 5, "inner_nodes_max": 3, "weights": "0..4"}
    return core.finish(PID, tier, seed, LEVEL, acc, t0, RULE, ASSUMPTIONS, bounds, replay)
