"""C17 -- substrate queries (reachability, antichain, bottleneck peeling) match the graph."""
from __future__ import annotations

import itertools
import random
import time
from fractions import Fraction

import networkx as nx
import z3

import flowpaths as fp
from .. import checkers, core, families as F, instances as I, smt, xh
from ..core import new_result

PID = "C17"
LEVEL = "model_checking"

REACH = xh.PRELUDE + '''
from typing import List
import networkx as nx
import flowpaths as fp
from crosshair.tracers import NoTracing

EDGES = {edges!r}
WEIGHTS = {weights!r}
CYC = {cyc!r}
SEL = {sel!r}     # 5 seeded positions: which nodes/edges the symbolic argument may address

VIA = {via!r}     # None: a fresh stDiGraph/stDAG; else the graph object held by a freshly constructed model of that class
                  # (its constructor has already queried the object and worked with the answers)

def _build():
    G = nx.DiGraph()
    for j, ((u, v), w) in enumerate(zip(EDGES, WEIGHTS)):
        G.add_edge(u, v, flow=w, cov=(3 * j + 1) % 7)        # a second attribute with other values
    if VIA is not None:
        return getattr(fp, VIA)(G, "flow", k=1, weight_type=int).G
    return (fp.stDiGraph if CYC else fp.stDAG)(G)

_H0 = _build()
NODES = list(_H0.nodes())
HEDGES = list(_H0.edges())

def _bfs(H, start, forward=True):
    seen = {{start}}
    todo = [start]
    while todo:
        x = todo.pop()
        for y in (H.successors(x) if forward else H.predecessors(x)):
            if y not in seen:
                seen.add(y)
                todo.append(y)
    return seen

_FW = {{v: _bfs(_H0, v, True) for v in NODES}}
_BW = {{v: _bfs(_H0, v, False) for v in NODES}}

def _ref_max_reach(u, v, attr="flow"):
    best = 0.0
    for (a, b) in HEDGES:
        w = float(_H0[a][b].get(attr, 0.0))
        if (a, b) == (u, v) or a in _FW[v] or b in _BW[u]:
            best = max(best, w)
    return best

def _q_nodes(H, ren, inv, v, fwd):
    with NoTracing():
        if CYC:
            got = H.nodes_reachable(ren[v]) if fwd else H.nodes_reaching(ren[v])
        else:
            got = H.reachable_nodes_from[ren[v]] if fwd else H.nodes_reaching[ren[v]]
        return {{inv[x] for x in got}} == (_FW[v] if fwd else _BW[v])

def _q_edge2(H, ren, inv, e):
    (u, v) = e
    with NoTracing():
        if CYC:
            return H.is_scc_edge(ren[u], ren[v]) == (u in _FW[v])
        got = {{(inv[x], inv[y]) for (x, y) in H.reachable_edges_from[ren[u]]}}
        return got == {{(x, y) for (x, y) in HEDGES if x in _FW[u]}}

def _q_edge3(H, ren, inv, e):
    (u, v) = e
    with NoTracing():
        if CYC:
            return H.compute_edge_max_reachable_value("flow")[(ren[u], ren[v])] == _ref_max_reach(u, v)
        got = {{(inv[x], inv[y]) for (x, y) in H.reachable_edges_rev_from[ren[u]]}}
        return got == {{(x, y) for (x, y) in HEDGES if y in _BW[u]}}

def _q_edge4(H, ren, inv, e):
    # the same question for the second attribute (and for an attribute no edge has): answers must not leak between attributes
    (u, v) = e
    with NoTracing():
        if CYC:
            ok = H.compute_edge_max_reachable_value("cov")[(ren[u], ren[v])] == _ref_max_reach(u, v, "cov")
            return ok and H.compute_edge_max_reachable_value("none_such")[(ren[u], ren[v])] == 0.0
        return True

def history(kinds: List[int], args: List[int]) -> bool:
    """
    pre: len(kinds) == len(args) and 1 <= len(kinds) <= {hist}
    pre: all(0 <= k < 5 for k in kinds)
    pre: all(0 <= a < 5 for a in args)
    post: _
    """
    with NoTracing():
        H = _build()            # fresh object: caches are cold at the start of every history
    names = list(H.nodes())
    # node names of a fresh object contain its id: map by position
    ren = dict(zip(NODES, names))
    inv = dict(zip(names, NODES))
    for k, a in zip(kinds, args):
        # branch on the symbolic values while tracing; the library calls themselves run untraced on concrete arguments
        if k == 0:
            v = NODES[SEL[a] % len(NODES)]
            if not _q_nodes(H, ren, inv, v, True):
                return False
        elif k == 1:
            v = NODES[SEL[a] % len(NODES)]
            if not _q_nodes(H, ren, inv, v, False):
                return False
        elif k == 2:
            e = HEDGES[SEL[a] % len(HEDGES)]
            if not _q_edge2(H, ren, inv, e):
                return False
        elif k == 3:
            e = HEDGES[SEL[a] % len(HEDGES)]
            if not _q_edge3(H, ren, inv, e):
                return False
        else:
            e = HEDGES[SEL[a] % len(HEDGES)]
            if not _q_edge4(H, ren, inv, e):
                return False
    return True

def twin(kinds: List[int], args: List[int]) -> bool:
    """
    pre: len(kinds) == len(args) and len(kinds) == {hist}
    pre: all(0 <= k < 5 for k in kinds)
    pre: all(0 <= a < 5 for a in args)
    post: False
    """
    return True

history([0, 1, 2, 3, 4][:{hist}], [0, 1, 2, 3, 4][:{hist}])
'''


def gen_tasks(tier, seed):
    rng = random.Random(seed + 17)
    tasks = []
    dags = I.dag_graphs(tier, rng, quick_n=6, thorough_n5=100)
    digs = I.digraphs(tier, rng, quick_n=6, thorough_n=40)
    # reachability histories (CrossHair)
    pick = ([d for d in dags if d[0] in ("diamond_cross", "bubble_chain", "two_components")] + dags[-2:], [d for d in digs if d[0] in ("nested", "parallel_inter_scc", "two_sccs")] + digs[-2:])
    if tier != "quick":
        pick = (dags[:20], digs[:20])
    for cyc, gs in ((False, pick[0]), (True, pick[1])):
        for name, es in gs:
            tasks.append({"kind": "reach", "name": name, "edges": es, "weights": [rng.choice((0, 1, 2, 5)) for _ in es], "cyc": cyc, "hist": 2 if tier == "quick" else 3, "sel": [rng.randrange(0, 12) for _ in range(5)]})
            # the same queries on the graph object a model keeps (constructor already used it): weights >= 1 so that the model is valid
            for via in ((("kLeastAbsErrorsCycles", "kMinPathErrorCycles") if cyc else ("kLeastAbsErrors",)) if (tier != "quick" or name in ("nested", "parallel_inter_scc", "two_sccs", "bubble_chain")) else ()):
                tasks.append({"kind": "reach", "name": name, "edges": es, "weights": [rng.choice((1, 2, 5)) for _ in es], "cyc": cyc, "hist": 2, "via": via, "sel": [rng.randrange(0, 12) for _ in range(5)]})
    # antichain (z3)
    for name, es in dags:
        wfs = [None, {}, {e: rng.choice((0, 1, 2, 5)) for e in es}, {e: 0 for e in es}, {e: rng.choice((1, 2 ** 31)) for e in es}]
        wfs += [{e: rng.choice((0, 1)) for e in es} for _ in range(4)] + [{e: rng.choice((0, 0, 1, 3)) for e in es} for _ in range(2)]
        if name in F.CURATED_DAGS and len(es) <= (6 if tier == "quick" else 8):
            wfs += [dict(zip(es, bits)) for bits in itertools.product((0, 1), repeat=len(es))]
        for wf in wfs:
            tasks.append({"kind": "antichain", "name": name, "edges": es, "wf": None if wf is None else [[list(e), w] for e, w in wf.items()]})
    # bottleneck peeling (concrete evaluation per enumerated flow)
    for name, es in dags:
        for _ in range(2):
            fl = I.dag_flow(es, rng)
            if fl:
                tasks.append({"kind": "peel", "name": name, "edges": I.with_flow(es, fl)})
                tasks.append({"kind": "peel", "name": name, "edges": [(u, v, f * 0.5) for (u, v, f) in I.with_flow(es, fl)]})
    for i, t in enumerate(tasks):
        t["tid"] = i
    return tasks


def _reach_src(task):
    return REACH.format(edges=[tuple(e) for e in task["edges"]], weights=task["weights"], cyc=task["cyc"], hist=task["hist"], sel=task["sel"], via=task.get("via"))


def run_task(task):
    res = new_result()
    res["evaluations"] = 1
    kind = task["kind"]
    if kind == "reach":
        res["functions"] = ["stDiGraph.nodes_reachable/nodes_reaching/is_scc_edge/compute_edge_max_reachable_value" if task["cyc"] else "stDAG.reachable_nodes_from/nodes_reaching/reachable_edges_from/reachable_edges_rev_from"]
        out, cpu = xh.run_module(_reach_src(task), f"c17_{task['tid']}", per_condition_timeout=task.get("timeout", 60))
        res["solver_s"] += cpu
        res["queries"] += 2
        v = out.get("history", {"verdict": "error", "message": "no output"})
        tw = out.get("twin", {"verdict": "error", "message": ""})
        res["obligations"] += 1
        res["nontrivial"] += 1
        res["samples"].append({"harness": "symbolic query history (kind, argument) x " + str(task["hist"]) + " on " + ("a fresh graph object" if not task.get("via") else "the graph object of a fresh " + task["via"] + " model"), "graph": task["name"], "edges": task["edges"], "cyclic": task["cyc"], "verdict": v["verdict"], "twin": tw["verdict"]})
        if v["verdict"] == "confirmed" and tw["verdict"] == "counterexample":
            res["discharged"] += 1
        elif v["verdict"] == "counterexample":
            res["violations"].append({"signature": f"{'stDiGraph' if task['cyc'] else 'stDAG'}:reachability-query-differs-from-graph-search", "summary": f"{task['name']}: {v['message'][:200]}",
                                      "replay": {"task": task, "call": xh.parse_call(v["message"])}})
        elif v["verdict"] == "error":
            res["harness_errors"].append(f"crosshair failed on {task['name']}: {v['message'][-600:]}")
        else:
            res["inconclusive"] += 1
    elif kind == "antichain":
        res["functions"] = ["stDAG.compute_max_edge_antichain", "graphutils.min_cost_flow"]
        _antichain(task, res)
    else:
        res["functions"] = ["stDAG.decompose_using_max_bottleneck", "graphutils.max_bottleneck_path"]
        _peel(task, res)
    return res


def _antichain(task, res):
    G = nx.DiGraph()
    G.add_edges_from([tuple(e) for e in task["edges"]])
    H = fp.stDAG(G)
    wf = None if task["wf"] is None else {tuple(e): w for e, w in task["wf"]}
    try:
        W, A = H.compute_max_edge_antichain(get_antichain=True, weight_function=wf)
    except TypeError as e:
        res["obligations"] += 1
        tot = sum(w for _e, w in task["wf"]) if task["wf"] else 0
        res["violations"].append({"signature": "compute_max_edge_antichain:raises-TypeError" + (":total-weight>=2^32" if tot >= 2 ** 32 else ""),
                                  "summary": f"{task['name']} wf={task['wf']}: TypeError (min_cost_flow found no feasible flow and returned None)", "replay": {"task": task}})
        return
    except AssertionError as e:
        res["obligations"] += 1
        res["violations"].append({"signature": "compute_max_edge_antichain:internal-assert", "summary": f"{task['name']} wf={task['wf']}: assertion failed (extracted antichain weight != min-cost-flow value)", "replay": {"task": task}})
        return
    W2 = H.compute_max_edge_antichain(get_antichain=False, weight_function=wf)
    edges = list(H.edges())
    weight = (lambda e: wf.get(e, 0)) if wf is not None else (lambda e: int(e[0] != H.source and e[1] != H.sink))
    reach = {v: nx.descendants(H, v) | {v} for v in H.nodes()}
    comparable = lambda e, f: (f[0] in reach[e[1]]) or (e[0] in reach[f[1]])
    res["nontrivial"] += 1 if len(edges) >= 4 else 0
    # returned antichain: pairwise unreachable, weight == reported optimum, both call styles agree
    res["obligations"] += 1
    pr = []
    for e, f in itertools.combinations(A, 2):
        if comparable(e, f):
            pr.append(f"antichain edges {e} and {f} are comparable")
    if sum(weight(e) for e in A) != W:
        pr.append(f"antichain weight {sum(weight(e) for e in A)} != reported {W}")
    if W2 != W:
        pr.append(f"get_antichain=False reports {W2}, get_antichain=True reports {W}")
    if len(set(A)) != len(A):
        pr.append("antichain repeats an edge")
    if pr:
        res["violations"].append({"signature": "compute_max_edge_antichain:" + ("not-an-antichain" if "comparable" in pr[0] else "weight-mismatch"), "summary": f"{task['name']} wf={task['wf']}: {pr[0]}", "replay": {"task": task}})
    else:
        res["discharged"] += 1
    # maximality: z3 -- no set of pairwise-incomparable edges has larger weight
    xs = {e: z3.Bool(f"in_{i}") for i, e in enumerate(edges)}
    s = smt.solver(60000)
    for e, f in itertools.combinations(edges, 2):
        if comparable(e, f):
            s.add(z3.Not(z3.And(xs[e], xs[f])))
    res["obligations"] += 1
    r = smt.check(s, z3.Sum([z3.If(xs[e], weight(e), 0) for e in edges]) > W)
    if len(res["samples"]) < 2:
        res["samples"].append({"obligation": "exists a set of pairwise-unreachable edges heavier than the reported optimum (must be unsat)", "graph": task["name"], "edges": task["edges"], "weights": task["wf"], "reported": W, "verdict": r})
    if r == "unsat":
        res["discharged"] += 1
    elif r == "unknown":
        res["inconclusive"] += 1
    else:
        m = s.model()
        better = [e for e in edges if z3.is_true(m.eval(xs[e], model_completion=True))]
        res["violations"].append({"signature": "compute_max_edge_antichain:not-maximum", "summary": f"{task['name']} wf={task['wf']}: reported {W}, antichain {better} is heavier", "replay": {"task": task}})


def _peel(task, res):
    G = nx.DiGraph()
    for (u, v, f) in task["edges"]:
        G.add_edge(u, v, flow=f)
    H = fp.stDAG(G)
    paths, weights = H.decompose_using_max_bottleneck("flow")
    res["obligations"] += 1
    res["nontrivial"] += 1 if len(paths) >= 2 else 0
    pr = []
    for p in paths:
        pr += checkers.route_problems(G, p, simple=True)
    exp, bad = checkers.explained(list(G.edges()), paths, weights)
    for (u, v) in G.edges():
        if exp[(u, v)] != Fraction(G[u][v]["flow"]):
            pr.append(f"edge ({u},{v}): flow {G[u][v]['flow']}, paths give {float(exp[(u, v)])}")
    if any(w <= 0 for w in weights):
        pr.append(f"non-positive path weight in {weights}")
    # the input graph must not be modified by the peeling
    for (u, v, f) in task["edges"]:
        if G[u][v]["flow"] != f or H[u][v]["flow"] != f:
            pr.append("input flow values were modified")
            break
    if len(res["samples"]) < 1:
        res["samples"].append({"obligation": "max-bottleneck peeling: source-to-sink paths whose weights add up to the flow on every edge (evaluated, not solver-decided)", "graph": task["name"], "edges": task["edges"], "paths": paths, "weights": weights})
    if pr:
        res["violations"].append({"signature": "decompose_using_max_bottleneck:" + ("modifies-input" if "modified" in pr[0] else "wrong-decomposition"), "summary": f"{task['name']}: {pr[0]}", "replay": {"task": task}})
    else:
        res["discharged"] += 1


def replay(data):
    task = data["task"]
    if task["kind"] == "reach":
        call = data.get("call")
        if not call:
            return False
        fn, pos, kw = call
        r = xh.call_concretely(_reach_src(task), "c17_replay", fn, pos, kw)
        print(f"  replay: {fn}({pos},{kw}) -> {r}")
        return r is False
    r = run_task(task)
    for v in r["violations"]:
        print("  replay:", v["signature"], v["summary"][:300])
    return bool(r["violations"])


RULE = ("cases: (graph, weights) with a symbolic history of <= 3 (4) reachability queries executed by CrossHair on a fresh graph object; (DAG, weight function) antichain cases decided by z3; "
        "(DAG, conserving flow) peeling cases evaluated; non-trivial = histories, antichains on >= 4 edges, decompositions with >= 2 paths")
ASSUMPTIONS = [
    "reachability: the library calls run under NoTracing (networkx), so CrossHair's contribution is the systematic coverage of every history of query kinds/arguments (cold and warm caches), not a deep argument; the oracle is a 10-line BFS; the symbolic argument addresses 5 seeded node/edge positions per graph",
    "antichain: pairwise unreachability and weight of the returned set are evaluated; maximality is a z3 query over all edge subsets; weight functions {default, {0,1,2,5}^E, all-zero, {1, 2^31}^E}",
    "bottleneck peeling is evaluated per enumerated conserving flow (CrossHair on it does not terminate -- DESIGN section 3)",
]


def main(tier, seed):
    t0 = time.time()
    tasks = gen_tasks(tier, seed)
    for t in tasks:
        t["timeout"] = 60 if tier == "quick" else 300
    acc = core.run_tasks(run_task, tasks, deadline_s=170 if tier == "quick" else 1500)
    bounds = {"dag_nodes_max": 4 if tier == "quick" else 5, "inner_nodes_max": 3, "history_len": tasks[0]["hist"] if tasks and "hist" in tasks[0] else 3}
    return core.finish(PID, tier, seed, LEVEL, acc, t0, RULE, ASSUMPTIONS, bounds, replay)
