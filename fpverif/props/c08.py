"""C08 -- k-Minimum-Path-Error is feasible for k >= width and minimises total slack; k=None picks the covering number."""
from __future__ import annotations

import random
import time

import networkx as nx

from .. import core, families as F, hx, instances as I, models, smt
from ..core import new_result
from . import c07, c09

PID = "C08"
LEVEL = "translation_validation"


def gen_width_tasks(tier, seed):
    rng = random.Random(seed + 88)
    tasks = []
    for cyc, graphs in ((False, I.dag_graphs(tier, rng, quick_n=6, thorough_n5=30)), (True, I.digraphs(tier, rng, quick_n=6, thorough_n=40))):
        for name, es in graphs:
            w = I.arbitrary_weights(es, rng, (0, 1, 2, 3))
            arb = I.with_flow(es, w)
            base = {"wkind": "width", "name": name, "edges": arb, "cyc": cyc, "starts": [], "ends": [], "ignored": [], "constraints": [], "node_mode": False}
            tasks.append({**base, "wt": "int"})
            tasks.append({**base, "wt": "float"})
            if cyc and name in F.CURATED_DIGRAPHS and len(es) <= (7 if tier == "quick" else 9):
                # k=None with every single edge ignored in turn
                for ex in es:
                    if any(f for (u, v, f) in arb if (u, v) != ex):
                        tasks.append({**base, "wt": "int", "ignored": [list(ex)]})
            if len(es) > 1:
                e0 = rng.choice(es)
                if any(f for (u, v, f) in arb if (u, v) != e0):
                    tasks.append({**base, "wt": "int", "ignored": [list(e0)]})
                    # an element with error scale 0 counts as ignored for the covering number as well
                    tasks.append({**base, "wt": "int", "ignored": [list(e0)], "via_scaling": True})
            # node-weighted: covering number over the nodes that are neither ignored nor zero-scaled
            import networkx as _nx
            Gn = _nx.DiGraph(es)
            nf = {v: rng.choice((1, 2, 3)) for v in Gn.nodes()}
            v0 = rng.choice(list(Gn.nodes()))
            # prefer a node whose removal from the demand lowers the covering number (then 'ignored' must really be honoured)
            cb = {"cyc": cyc, "starts": [], "ends": [], "constraints": [], "node_mode": True, "edges": es}
            k_all = c09.reference_min_k({**cb, "ignored": []}, Gn, 4)[0]
            better = [v for v in Gn.nodes() if (c09.reference_min_k({**cb, "ignored": [v]}, Gn, 4)[0] or 9) < (k_all or 0)]
            if better:
                v0 = rng.choice(better)
            tasks.append({**base, "wt": "int", "node_mode": True, "node_flow": nf, "edges": [(u, v, None) for (u, v) in es], "ignored": [v0], "via_scaling": True})
            tasks.append({**base, "wt": "int", "node_mode": True, "node_flow": nf, "edges": [(u, v, None) for (u, v) in es], "ignored": [v0]})
            tasks.append({**base, "wt": "int", "node_mode": True, "node_flow": nf, "edges": [(u, v, None) for (u, v) in es]})
    return tasks


def run_width_task(task):
    """k in {w*, w*+1}: LP_k feasible, honest solve succeeds; k=None resolves to w* (w* = certified minimum cover of the non-ignored edges)"""
    res = new_result()
    cls = "kMinPathErrorCycles" if task["cyc"] else "kMinPathError"
    res["functions"] = [f"{cls}.__init__ (k=None -> get_width)", "stDAG.get_width" if not task["cyc"] else "stDiGraph.get_width"]
    res["evaluations"] = 1
    G = nx.DiGraph()
    G.add_edges_from([(u, v) for (u, v, _f) in task["edges"]])
    ctask = {**task, "edges": [(u, v) for (u, v, _f) in task["edges"]]}
    res["obligations"] += 1
    k_ref, wit, inc = c09.reference_min_k(ctask, G, 5)
    if inc or k_ref is None or k_ref == 0:
        res["inconclusive"] += 1 if inc else 0
        return res
    res["discharged"] += 1
    res["nontrivial"] += 1 if k_ref >= 2 else 0
    kw = {"weight_type": task["wt"]}
    if task["node_mode"]:
        kw["flow_attr_origin"] = "node"
    if task["ignored"] and task.get("via_scaling"):
        kw["error_scaling"] = [[e, 0] for e in task["ignored"]]
    elif task["ignored"]:
        kw["elements_to_ignore"] = task["ignored"]
    desc = {"cls": cls, "graph": task["name"], "edges": task["edges"], "ignored": task["ignored"], "w*": k_ref}
    for k in (None, k_ref, k_ref + 1):
        t = {"cls": cls, "edges": task["edges"], "node_flow": task.get("node_flow"), "kwargs": {**kw, "k": k}}
        try:
            with hx.capture() as sess:
                m, _ = models.construct(t)
                ok = m.solve()
        except Exception as e:
            res["obligations"] += 1
            res["violations"].append({"signature": f"{cls}:raised-{type(e).__name__}-for-k>=width", "summary": f"{task['name']} k={k}: {type(e).__name__}: {e}",
                                      "replay": {"kind": "width", "task": task}})
            continue
        lp = sess.snaps[-1]
        res["extra"]["programs"] = res["extra"].get("programs", 0) + 1
        res["obligations"] += 1
        if k is None:
            if m.k == k_ref:
                res["discharged"] += 1
            else:
                res["violations"].append({"signature": f"{cls}:k=None-resolves-to-{'more' if m.k > k_ref else 'fewer'}-than-covering-number",
                                          "summary": f"{task['name']}: k=None -> {m.k}, minimum cover of non-ignored edges = {k_ref}", "replay": {"kind": "width", "task": task}})
            res["obligations"] += 1
        r, _v = smt.feasible(lp, timeout_ms=90000)
        if len(res["samples"]) < 2:
            res["samples"].append({"obligation": "k >= covering number: captured LP feasible (z3) and the model is solved", "instance": desc, "k": k, "lp": r, "solved": ok})
        if r == "unknown":
            res["inconclusive"] += 1
        elif r == "sat" and ok:
            res["discharged"] += 1
        else:
            res["extra"]["disagreements_checked"] = res["extra"].get("disagreements_checked", 0) + 1
            if task["cyc"] and _witness_exceeds_cap(task, m, lp, wit):
                res["violations"].append({"signature": f"{cls}:infeasible-although-solution-exists:needs-traversals-above-repetition-cap",
                                          "summary": f"{task['name']} k={k if k else m.k}: LP {r}, solved={ok}; the covering walks {wit} need more traversals than the repetition cap allows",
                                          "replay": {"kind": "width", "task": task}})
                continue
            res["violations"].append({"signature": f"{cls}:unsolved-for-k>=width", "summary": f"{task['name']} k={k if k else m.k}: LP {r}, solved={ok}, covering number {k_ref}",
                                      "replay": {"kind": "width", "task": task}})
    return res


def _witness_exceeds_cap(task, m, lp, wit):
    """wit = list (per walk) of [u, v, multiplicity]: does some walk need an edge (node, in node mode) more often than the LP's column bound?"""
    try:
        cols = models.edge_cols(m)
        for walk in wit or []:
            visits = {}
            for u, v, c in walk:
                if task["node_mode"]:
                    visits[v] = visits.get(v, 0) + c
                    ub = lp.ub[cols[(u + ".1", v + ".0", 0)]]
                else:
                    ub = lp.ub[cols[(u, v, 0)]]
                if ub is not None and c > ub:
                    return True
            for v, c in visits.items():
                ub = lp.ub[cols[(v + ".0", v + ".1", 0)]]
                if ub is not None and c > ub:
                    return True
    except Exception:
        return False
    return False


def run_task(task):
    if task.get("wkind") == "width":
        return run_width_task(task)
    return c07.run_task(task)


def replay(data):
    task = data["task"]
    if task.get("wkind") == "width":
        r = run_width_task(task)
        for v in r["violations"]:
            print("  replay:", v["signature"], v["summary"])
        return bool(r["violations"])
    return c07.replay(data)


RULE = c07.RULE + "; plus width cases: (graph, weights, ignored) with k in {None, w*, w*+1} where w* is the z3-certified minimum cover"
ASSUMPTIONS = c07.ASSUMPTIONS + [
    "slack inequality: |flow - explained| * scale <= sum over routes through the element of (traversals x slack), length-scaled by the piecewise factor of the route length (edges incl. the two synthetic ones) when path_length_factors are given",
]


def main(tier, seed):
    t0 = time.time()
    tasks = c07.gen_tasks(tier, seed, "mpe") + gen_width_tasks(tier, seed)
    for i, t in enumerate(tasks):
        t["tid"] = i
    acc = core.run_tasks(run_task, tasks, deadline_s=170 if tier == "quick" else 1800)
    bounds = {"dag_nodes_max": 4 if tier == "quick" else 5, "inner_nodes_max": 3, "k_max": 3, "weights": "0..4"}
    return core.finish(PID, tier, seed, LEVEL, acc, t0, RULE, ASSUMPTIONS, bounds, replay)
