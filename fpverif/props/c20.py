"""C20 -- graph files are parsed faithfully and malformed files are rejected.

CrossHair drives the real ``read_graph`` / ``read_graphs`` with a symbolic *file structure* (edge subset bitmask, weights,
header / blank / '#S' line counts, number of blocks, corruption selector) rendered to text by the harness, and with one
fully symbolic short edge line.  Level: exploration.
"""
from __future__ import annotations

import time

from .. import core, xh
from ..core import new_result

PID = "C20"
LEVEL = "exploration"

HARNESS = xh.PRELUDE + '''
from typing import List
import os, tempfile
import networkx as nx
from flowpaths.utils import graphutils as gu
from crosshair.tracers import NoTracing

# node names are multi-character and chosen so that different node sequences concatenate to the same string
# ("1"+"12" == "11"+"2"): s = "1", a = "11", b = "2", t = "12"
S_, A_, B_, T_ = "1", "11", "2", "12"
PAIRS = [(S_, A_), (A_, B_), (B_, A_), (A_, A_), (B_, T_), (A_, T_), (S_, B_), (S_, T_)]
SUBPATHS = [[S_, A_, B_], [A_, B_, T_], [S_, A_], [A_, B_, A_], [S_, T_], [A_, B_]]

def _conc(x, lo, hi):
    for j in range(lo, hi + 1):
        if x == j:
            return j
    return lo

def _edges(mask, ws):
    es = []
    for i, p in enumerate(PAIRS):
        if i == 0 or (mask >> i) & 1:
            es.append((p[0], p[1], ws[i % len(ws)]))
    if not any(v == T_ for (_u, v, _w) in es):
        es.append((A_, T_, ws[0]))
    return es

def _block(name, es, nheaders, nblank, subpaths, declared_n):
    lines = ["# " + name + "\\n"]
    for j in range(nheaders - 1):
        if nblank:
            lines.append("\\n")                       # a blank line between two header lines as well
        lines.append("# extra header " + str(j) + "\\n")
    for sp in subpaths:
        lines.append("#S " + " ".join(sp) + "\\n")
    for _ in range(nblank):
        lines.append("\\n")
    lines.append(str(declared_n) + "\\n")
    for (u, v, w) in es:
        lines.append(u + " " + v + " " + str(w) + "\\n")
    return lines

def _width_ref(G):
    """least number of source-to-sink walks covering every edge (independent z3 spec from the harness package)"""
    import z3
    from fpverif import spec, smt
    for k in range(1, 5):
        sp = spec.WalkEuler(G, k, mult_max=max(2, G.number_of_nodes() * G.number_of_edges()))
        s = z3.Solver()
        s.add(sp.cons + spec.cover(sp, list(G.edges())))
        if str(s.check()) == "sat":
            return k
    return None

def _expect(G, name, es, subpaths):
    if G.graph.get("id") != name:
        return False
    if set(G.edges()) != {{(u, v) for (u, v, _w) in es}}:
        return False
    for (u, v, w) in es:
        if G[u][v].get("flow") != float(w):
            return False
    want = []
    seen = set()
    for sp in subpaths:
        if tuple(sp) in seen:
            continue
        seen.add(tuple(sp))
        want.append(list(zip(sp[:-1], sp[1:])))
    if G.graph.get("constraints") != want:
        return False
    if G.graph.get("n") != G.number_of_nodes() or G.graph.get("m") != G.number_of_edges():
        return False
    ref = _width_ref(G)
    if ref is None:
        return True       # some edge lies on no source-to-sink walk: no cover exists, the width is not defined
    return G.graph.get("w") == ref

def _usable(es, subpaths):
    eset = {{(u, v) for (u, v, _w) in es}}
    return [sp for sp in subpaths if all(e in eset for e in zip(sp[:-1], sp[1:]))]

def wellformed_edges(mask: int, w0: int) -> bool:
    """
    pre: 0 <= mask < 128
    pre: 0 <= w0 <= 1
    post: _
    """
    return _wellformed(_conc(mask, 0, 127), 2 * _conc(w0, 0, 1), 7, 1, 0, 0, -1, 1)

def wellformed_edges_hi(mask: int, w0: int) -> bool:
    """
    pre: 128 <= mask < 256
    pre: 0 <= w0 <= 1
    post: _
    """
    return _wellformed(_conc(mask, 128, 255), 2 * _conc(w0, 0, 1), 7, 1, 0, 0, -1, 1)

def wellformed_layout(nheaders: int, nblank: int, sp1: int, sp2: int, blocks: int, mask: int) -> bool:
    """
    pre: 1 <= nheaders <= 2 and 0 <= nblank <= 1
    pre: -1 <= sp1 <= 5 and -1 <= sp2 <= 5
    pre: 1 <= blocks <= 2
    pre: mask == 131
    post: _
    """
    return _wellformed(131, 1, 2, _conc(nheaders, 1, 2), _conc(nblank, 0, 1), _conc(sp1, -1, 5), _conc(sp2, -1, 5), _conc(blocks, 1, 2))

def wellformed_layout2(nheaders: int, nblank: int, sp1: int, sp2: int, blocks: int) -> bool:
    """
    pre: 1 <= nheaders <= 2 and 0 <= nblank <= 1
    pre: -1 <= sp1 <= 5 and -1 <= sp2 <= 5
    pre: 1 <= blocks <= 2
    post: _
    """
    return _wellformed(246, 1, 2, _conc(nheaders, 1, 2), _conc(nblank, 0, 1), _conc(sp1, -1, 5), _conc(sp2, -1, 5), _conc(blocks, 1, 2))

def wellformed_zero(pos: int, nblocks: int, nblank: int) -> bool:
    """
    pre: 0 <= pos <= 2 and 0 <= nblocks <= 2 and 0 <= nblank <= 1
    post: _
    """
    # a zero-vertex block (documented as handled) before / between / after ordinary blocks
    p, nbk, nb = _conc(pos, 0, 2), _conc(nblocks, 0, 2), _conc(nblank, 0, 1)
    with NoTracing():
        es = [("s", "a", 1), ("a", "t", 2)]
        blocks = [_block("g" + str(i), es, 1, 0, [], 3) for i in range(nbk)]
        zero = ["# z\\n"] + ["\\n"] * nb + ["0\\n"]
        p = min(p, nbk)
        allb = []
        for i, b_ in enumerate(blocks[:p]):
            allb += b_
        allb += zero
        for b_ in blocks[p:]:
            allb += b_
        import io
        text = "".join(allb)
        gu.open = lambda fn, mode="r": io.StringIO(text)
        try:
            Gs = gu.read_graphs("in-memory.graph")
        finally:
            del gu.open
        if len(Gs) != nbk + 1:
            return False
        Z = Gs[p]
        if Z.graph.get("id") != "z" or Z.number_of_nodes() != 0 or Z.number_of_edges() != 0 or Z.graph.get("constraints") != []:
            return False
        if Z.graph.get("n") != 0 or Z.graph.get("m") != 0:
            return False
        others = [g for i, g in enumerate(Gs) if i != p]
        return all(_expect(g, "g" + str(i), es, []) for i, g in enumerate(others))

def wellformed_count(mask: int, dn: int, blocks: int) -> bool:
    """
    pre: 0 <= mask < 16
    pre: -1 <= dn <= 2
    pre: 1 <= blocks <= 2
    post: _
    """
    # the vertex-count line is a number that need not equal the number of distinct nodes on the edge lines
    # (isolated vertices declared, stale count): the stored counts must describe the returned graph
    return _wellformed(_conc(mask, 0, 15), 1, 2, 1, 0, -1, -1, _conc(blocks, 1, 2), _conc(dn, -1, 2))

def _wellformed(m, a, b, nh, nb, s1, s2, bl, dn=0):
    with NoTracing():
        es = _edges(m, [a, b, 5])
        sps = _usable(es, [SUBPATHS[i] for i in (s1, s2) if i >= 0])
        nodes = {{x for (u, v, _w) in es for x in (u, v)}}
        lines = _block("g1", es, nh, nb, sps, max(1, len(nodes) + dn))
        try:
            G = gu.read_graph(lines)
        except Exception:
            return False                 # a well-formed block must be read, not rejected
        if not _expect(G, "g1", es, sps):
            return False
        # several blocks through a real file
        es2 = [("x", "y", 7)]
        allb = list(lines)
        if bl == 2:
            allb += ["\\n"] * nb + _block("g2", es2, 1, 0, [], 2)
        if bl == 2 and sps:
            # a third block that repeats the first block word for word (also its '#S' lines): it must yield the same graph again
            allb += _block("g1", es, nh, nb, sps, max(1, len(nodes) + dn))
        # read_graphs opens a file: serve the text from memory (CrossHair blocks real file writes)
        import io
        text = "".join(allb)
        gu.open = lambda fn, mode="r": io.StringIO(text)
        try:
            Gs = gu.read_graphs("in-memory.graph")
        except Exception:
            return False
        finally:
            del gu.open
        if bl == 2 and sps:
            if len(Gs) != 3 or not _expect(Gs[2], "g1", es, sps):
                return False
            Gs = Gs[:2]
        if len(Gs) != bl or not _expect(Gs[0], "g1", es, sps):
            return False
        if bl == 2 and not _expect(Gs[1], "g2", es2, []):
            return False
        return True

def malformed(mask: int, kind: int, which: int) -> bool:
    """
    pre: 0 <= mask < 64
    pre: 0 <= kind <= 11
    pre: 0 <= which <= 2
    post: _
    """
    m, kd, wh = _conc(mask, 0, 63), _conc(kind, 0, 11), _conc(which, 0, 2)
    with NoTracing():
        es = _edges(m, [1, 2, 3])
        nodes = {{x for (u, v, _w) in es for x in (u, v)}}
        lines = _block("g", es, 1, 0, [], len(nodes))
        first_edge = 2
        tgt = first_edge + (wh % len(es))
        u, v, w = es[wh % len(es)]
        if kd == 0:
            lines[tgt] = u + " " + v + "\\n"                      # 2 tokens
        elif kd == 1:
            lines[tgt] = u + " " + v + " 1 2\\n"                  # 4 tokens
        elif kd == 2:
            lines[tgt] = u + " " + v + " x1\\n"                   # non-numeric weight
        elif kd == 3:
            lines[1] = "five\\n"                                   # non-numeric vertex count
        elif kd == 4:
            lines.insert(1, "#S 1 zz 11\\n")                       # constraint edge missing from the graph
        elif kd == 5:
            lines[tgt] = u + "\\n"                                 # 1 token
        elif kd == 6:
            lines[1] = str(len(nodes)) + " vertices\\n"            # trailing text on the vertex-count line
        elif kd == 7:
            del lines[1]                                           # vertex-count line missing: an edge line is found instead
        elif kd == 11:
            lines = ["# g\\n", "#S " + u + " " + v + "\\n", "0\\n"]     # zero-vertex block whose constraint names an edge it cannot contain
        elif kd == 9:
            lines.insert(1, "#S " + v + " " + u + "\\n")             # constraint names the edge backwards (both nodes exist, the edge does not)
            if any((a, b_) == (v, u) for (a, b_, _w) in es):
                return True                                         # the reversed pair happens to be an edge as well: not malformed
        elif kd == 10:
            lines.insert(1, "#S " + u + " " + u + "\\n")             # constraint repeats a node
            if any((a, b_) == (u, u) for (a, b_, _w) in es):
                return True
        else:
            lines[1] = "4.0\\n"                                    # vertex count that is not an integer literal
        try:
            gu.read_graph(lines)
        except ValueError:
            return True
        except Exception:
            return False
        return False

def symbolic_edge_line(line: str) -> bool:
    """
    pre: len(line) <= 5
    post: _
    """
    lines = ["# g\\n", "2\\n", "s t 3\\n", line]
    # oracle: is `line` an acceptable line of the format?
    stripped = line.strip()
    toks = line.split()
    acceptable = stripped == "" or line.lstrip().startswith("#")
    numeric = False
    if len(toks) == 3:
        try:
            float(toks[2])
            numeric = True
        except ValueError:
            numeric = False
        acceptable = acceptable or numeric
    # the parser itself cannot be traced (networkx under the tracer): run it on the string realised for this oracle region
    from crosshair import realize
    cl = realize(line)
    with NoTracing():
        lines = ["# g\\n", "2\\n", "s t 3\\n", cl]
        toks = cl.split()
        try:
            G = gu.read_graph(lines)
        except ValueError:
            return not acceptable
        except Exception:
            return False
        if not acceptable:
            return False
        if len(toks) == 3 and not cl.lstrip().startswith("#"):
            return G.has_edge(toks[0], toks[1]) and G[toks[0]][toks[1]]["flow"] == float(toks[2])
        return set(G.edges()) == {{("s", "t")}}

wellformed_edges(3, 1); wellformed_layout(1, 0, -1, -1, 1, 131); wellformed_count(3, 1, 1); wellformed_zero(0, 1, 0); malformed(3, 0, 0); symbolic_edge_line("a b 1")
'''


def gen_tasks(tier, seed):
    tasks = [{"fn": "wellformed_edges"}, {"fn": "wellformed_edges_hi"}, {"fn": "wellformed_layout"}, {"fn": "wellformed_layout2"}, {"fn": "wellformed_count"}, {"fn": "wellformed_zero"}, {"fn": "malformed"}, {"fn": "symbolic_edge_line"}]
    for i, t in enumerate(tasks):
        t["tid"] = i
    return tasks


def run_task(task):
    res = new_result()
    res["functions"] = ["graphutils.read_graph", "graphutils.read_graphs", "stDiGraph.get_width (stored 'w')"]
    out, cpu = xh.run_module(HARNESS.format(), f"c20_{task['tid']}", per_condition_timeout=task["timeout"], only=task["fn"])
    res["solver_s"] += cpu
    v = out.get(task["fn"], {"verdict": "error", "message": "no output"})
    res["obligations"] += 1
    res["queries"] += 1
    res["evaluations"] = 1
    res["nontrivial"] += 1
    what = {"wellformed_edges_hi": "as wellformed_edges, upper half of the edge-subset bitmasks (those containing the direct edge 1->12)",
            "wellformed_edges": "symbolic edge-subset bitmask (8 candidate edges incl. self loop and 2-cycle, multi-character node names) and a weight in {0, 2}",
            "wellformed_layout2": "as wellformed_layout on the second edge set (mask 246)",
            "wellformed_layout": "symbolic header count, blank-line count, two independent '#S' selectors (duplicates and sequences whose concatenation collides), number of blocks (1-2, read through read_graphs), on edge set 131",
            "wellformed_count": "symbolic edge subset (16 masks), vertex-count line = number of nodes + d with d symbolic in -1..2 (isolated vertices declared / stale count), 1-2 blocks: stored counts must describe the returned graph",
            "wellformed_zero": "a zero-vertex block at a symbolic position among 0-2 ordinary blocks (read through read_graphs): empty graph, id kept, stored counts 0",
            "malformed": "symbolic edge subset, corruption kind 0..10 (token counts, non-numeric weight / count, count with trailing text, missing count line, constraint naming an unknown node / a reversed edge / a repeated node, zero-vertex block with a constraint), corrupted line index", "symbolic_edge_line": "one fully symbolic edge line of <= 5 characters"}[task["fn"]]
    res["samples"].append({"harness": task["fn"], "symbolic": what, "verdict": v["verdict"], "cpu_s": round(cpu, 1)})
    if v["verdict"] == "confirmed":
        res["discharged"] += 1
    elif v["verdict"] == "counterexample":
        call = xh.parse_call(v["message"])
        res["violations"].append({"signature": f"read_graph:{task['fn']}", "summary": v["message"][:250], "replay": {"task": task, "call": call}})
    elif v["verdict"] == "error":
        res["harness_errors"].append(f"crosshair failed on {task['fn']}: {v['message'][-800:]}")
    else:
        res["inconclusive"] += 1
        res["extra"]["not_confirmed_harnesses"] = [task["fn"]]
    return res


def replay(data):
    call = data.get("call")
    if not call:
        return False
    fn, pos, kw = call
    r = xh.call_concretely(HARNESS.format(), "c20_replay", fn, pos, kw)
    print(f"  replay: {fn}({pos},{kw}) -> {r}")
    return r is False


RULE = ("three harnesses over the real parser: well-formed files (structure symbolic), single-line corruptions (kind and position symbolic), one fully symbolic short edge line; non-trivial = all; "
        "'Not confirmed' is counted inconclusive")
ASSUMPTIONS = [
    "well-formed files: graphs over {s,a,b,t} always containing s->a and an edge into t (the format's consumer needs a source and a sink), distinct edges, weights 0..9; expected width = least k for which z3 finds k covering walks (independent spec)",
    "malformed files: 2-token / 4-token / 1-token edge line, non-numeric weight, non-numeric vertex count, '#S' line naming an absent edge; expectation ValueError",
    "the symbolic-string harness traces the format oracle (strip/split/startswith/float on a symbolic str of <= 4 chars) and runs the parser on the string realised for each oracle region; the other two render the text from concretised structure and call the parser untraced (networkx cannot run under the tracer)",
]


def main(tier, seed):
    t0 = time.time()
    tasks = gen_tasks(tier, seed)
    for t in tasks:
        t["timeout"] = (60 if t["fn"] == "symbolic_edge_line" else 150) if tier == "quick" else 1200
    acc = core.run_tasks(run_task, tasks, deadline_s=175 if tier == "quick" else 2500)
    acc["evaluations"] = max(acc["evaluations"], 5)
    bounds = {"candidate_edges": 8, "weights": "0..9", "blocks_max": 2, "symbolic_line_len_max": 5}
    return core.finish(PID, tier, seed, LEVEL, acc, t0, RULE, ASSUMPTIONS, bounds, replay)
