"""C04 -- MinFlowDecompCycles finds a decomposition into the fewest walks; scale invariance (float weights)."""
from __future__ import annotations

import copy
import random
import time
from fractions import Fraction

import networkx as nx
import z3

from .. import checkers, core, families as F, hx, instances as I, models, smt, spec
from ..core import HarnessError, new_result

PID = "C04"
LEVEL = "translation_validation"
SCALES = (0.5, 0.1, 2.5, 10, 1.1, 3.3)


def gen_tasks(tier, seed):
    rng = random.Random(seed + 4)
    tasks = []
    for name, es in I.digraphs(tier, rng, quick_n=10, thorough_n=200):
        for rep in range(1 if tier == "quick" else 2):
            wf = I.walk_flow(es, rng, weights=(1, 2, 3), max_walks=3)
            if wf is None:
                continue
            fl, walks, wts = wf
            if max(fl.values()) > 6 or sum(fl.values()) > 30:
                continue
            wedges = I.with_flow(es, fl)
            base = {"name": name, "cls": "MinFlowDecompCycles", "starts": [], "ends": [], "ignored": [], "constraints": [], "edges": wedges}
            tasks.append({**base, "kwargs": {"weight_type": "int"}})
            tasks.append({**base, "kwargs": {"weight_type": "int", "optimization_options": {"optimize_with_safe_sequences": False}}})
            tasks.append({**base, "kwargs": {"weight_type": "int", "optimization_options": {"use_min_gen_set_lowerbound": True}}})
            # non-default settings of the safe-sequence optimisations (bounds instead of rows; no >= rows for edges inside an SCC): the minimum must not move
            tasks.append({**base, "kwargs": {"weight_type": "int", "optimization_options": {"optimize_with_safe_sequences_fix_via_bounds": True}}})
            tasks.append({**base, "kwargs": {"weight_type": "int", "optimization_options": {"optimize_with_safe_sequences_allow_geq_constraints": False}}})
            # further flows for the min-gen-set lower bound (walks that take a loop several times, values <= source flow)
            for _r in range(3):
                wf2 = I.walk_flow(es, rng, weights=(1, 2, 4), max_walks=3)
                if wf2 and max(wf2[0].values()) <= 8 and sum(wf2[0].values()) <= 30:
                    tasks.append({**base, "edges": I.with_flow(es, wf2[0]), "kwargs": {"weight_type": "int", "optimization_options": {"use_min_gen_set_lowerbound": True}}})
            # ignored edges (their stale value is off by one): the minimum is over decompositions of the non-ignored part, also with the
            # min-gen-set lower bound switched on -- the first three edges in turn
            if rep == 0:
                for ex in es[:3]:
                    stale = [(u, v, f + 1 if (u, v) == ex else f) for (u, v, f) in wedges]
                    if not any(f for (u, v, f) in stale if (u, v) != ex):
                        continue
                    for oo in ({}, {"use_min_gen_set_lowerbound": True}):
                        tasks.append({**base, "edges": stale, "ignored": [list(ex)], "kwargs": {"weight_type": "int", "elements_to_ignore": [list(ex)], "optimization_options": dict(oo)}})
                    # ... and with the stale value 0 (an ignored edge's value must not limit how often a walk may use it)
                    zero = [(u, v, 0 if (u, v) == ex else f) for (u, v, f) in wedges]
                    tasks.append({**base, "edges": zero, "ignored": [list(ex)], "kwargs": {"weight_type": "int", "elements_to_ignore": [list(ex)]}})
            # subset constraint taken from one generating walk (so a decomposition satisfying it exists, possibly with more walks)
            w = rng.choice(walks)
            wes = list(zip(w[:-1], w[1:]))
            if len(wes) >= 2:
                c = rng.sample(wes, 2)
                c = [list(e) for e in dict.fromkeys(c)]
                tasks.append({**base, "constraints": [c], "kwargs": {"weight_type": "int", "subset_constraints": [c]}})
                # the guessed-weights pre-solve (non-default) must honour the constraint as well
                tasks.append({**base, "constraints": [c], "kwargs": {"weight_type": "int", "subset_constraints": [c], "optimization_options": {"optimize_with_guessed_weights": True}}})
                cd = [c[0], c[-1], c[0]]          # the same edge listed twice in one constraint
                tasks.append({**base, "constraints": [cd], "kwargs": {"weight_type": "int", "subset_constraints": [cd]}})
            if rep == 0 and len(walks) >= 2:
                w0e, w1e = list(zip(walks[0][:-1], walks[0][1:])), list(zip(walks[1][:-1], walks[1][1:]))
                only0 = [e for e in w0e if e not in w1e]
                only1 = [e for e in w1e if e not in w0e]
                if only0 and only1:
                    cx = [list(only0[0]), list(only1[-1])]        # crosses the two generating walks: raises the constrained minimum
                    for oo in ({"optimize_with_guessed_weights": True}, {}):
                        tasks.append({**base, "constraints": [cx], "kwargs": {"weight_type": "int", "subset_constraints": [cx], "optimization_options": dict(oo)}})
            if sum(fl.values()) <= 14 and (tier != "quick" or rng.random() < 0.3):
                tasks.append({**base, "specx": True, "kwargs": {"weight_type": "int"}})
            # scale invariance
            c_ = rng.choice(SCALES)
            tasks.append({**base, "scale": c_, "kwargs": {"weight_type": "float"}})
            if rep == 0 and name in F.CURATED_DIGRAPHS:
                tasks.append({**base, "scale": 1.1, "kwargs": {"weight_type": "float"}})
    # scale factors that are not dyadic: c*6 is not the float sum of c*1 and c*5 (the scaled flow is still a flow up to rounding)
    for name, wes in (("split_6_1_5", [("s", "a", 6), ("a", "b", 1), ("a", "c", 5), ("b", "t", 1), ("c", "t", 5)]),
                      ("split_6_1_5_cycle", [("s", "a", 6), ("a", "b", 1), ("a", "c", 5), ("b", "t", 1), ("c", "t", 5), ("c", "x", 5), ("x", "c", 5)])):
        for c_ in (1.1, 0.7, 3.3):
            tasks.append({"name": name, "cls": "MinFlowDecompCycles", "starts": [], "ends": [], "ignored": [], "constraints": [], "edges": wes, "scale": c_, "kwargs": {"weight_type": "float"}})
    # two consecutive diamonds with the same 1/2 split (with and without a cycle on one branch) and a constraint that crosses the
    # branches: the constrained minimum (3) is above the unconstrained one (2), also with the guessed-weights pre-solve
    dd = [("s", "a", 3), ("a", "b", 1), ("b", "d", 1), ("d", "e", 1), ("e", "t", 1), ("a", "c", 2), ("c", "d", 2), ("d", "f", 2), ("f", "t", 2)]
    for name, wes in (("double_diamond", dd), ("double_diamond_cycle", dd + [("c", "g", 2), ("g", "c", 2)])):
        for oo in ({}, {"optimize_with_guessed_weights": True}, {"optimize_with_guessed_weights": True, "optimize_with_safe_sequences": False}):
            tasks.append({"name": name, "cls": "MinFlowDecompCycles", "starts": [], "ends": [], "ignored": [], "constraints": [[["a", "b"], ["d", "f"]]], "edges": wes, "no_kmodels": True,
                          "kwargs": {"weight_type": "int", "subset_constraints": [[["a", "b"], ["d", "f"]]], "optimization_options": dict(oo)}})
    # deterministic flows for the min-gen-set lower bound: one walk through a self loop taken m = 2, 3 times with weight 1, 2
    # (the loop's flow value is then a multiple of a walk weight, not a sub-sum)
    for name, es in F.CURATED_DIGRAPHS.items():
        G = nx.DiGraph(es)
        S_, T_ = [v for v in G if G.in_degree(v) == 0], [v for v in G if G.out_degree(v) == 0]
        for (u, v) in es:
            if u != v:
                continue
            try:
                p1 = min((nx.shortest_path(G, s_, u) for s_ in S_ if nx.has_path(G, s_, u)), key=len)
                p2 = min((nx.shortest_path(G, u, t_) for t_ in T_ if nx.has_path(G, u, t_)), key=len)
            except ValueError:
                continue
            for m_ in (2, 3):
                for w_ in (1, 2):
                    walk = p1 + [u] * m_ + p2[1:]
                    fl = {e: 0 for e in es}
                    for e in zip(walk[:-1], walk[1:]):
                        fl[e] += w_
                    # the other edges must carry flow too (positive flow): add one covering walk set of weight 1 if needed
                    ok_ = True
                    for (x, y) in [e for e in es if fl[e] == 0]:
                        if fl[(x, y)] > 0:
                            continue
                        try:
                            q1 = min((nx.shortest_path(G, s_, x) for s_ in S_ if nx.has_path(G, s_, x)), key=len)
                            q2 = min((nx.shortest_path(G, y, t_) for t_ in T_ if nx.has_path(G, y, t_)), key=len)
                        except ValueError:
                            ok_ = False
                            break
                        for e in zip((q1 + q2)[:-1], (q1 + q2)[1:]):
                            fl[e] += 4            # heavy covering walk for the edges the loop walk does not use
                    if not ok_ or max(fl.values()) > 12:
                        continue
                    tasks.append({"name": name, "cls": "MinFlowDecompCycles", "starts": [], "ends": [], "ignored": [], "constraints": [], "edges": I.with_flow(es, fl),
                                  "kwargs": {"weight_type": "int", "optimization_options": {"use_min_gen_set_lowerbound": True}}})
    for i, t in enumerate(tasks):
        t["tid"] = i
    return tasks


def spec_k(task, G, k, tag="S"):
    dem = spec.demands_of(G, "flow", False, task["ignored"])
    caps = {e: max(1, int(f)) for e, f in dem}
    sp = spec.WalkEuler(G, k, wtype="int", tag=tag, mult_max=max(caps.values()), caps=caps)
    cons = list(sp.cons) + spec.flow_decomposition(sp, dem)
    if task["constraints"]:
        cons += spec.subset_constraints_satisfied(sp, task["constraints"], task["kwargs"].get("subset_constraints_coverage", 1.0))
    return sp, cons


def reference_min_k(task, G, kmax):
    for k in range(1, kmax + 1):
        sp, cons = spec_k(task, G, k)
        s = smt.solver(90000)
        s.add(cons)
        r = smt.check(s)
        if r == "unknown":
            return None, None, True
        if r == "sat":
            ms, ws = sp.read(s.model())
            return k, {"mults": [[[e[0], e[1], c] for e, c in m.items() if c] for m in ms], "weights": [str(w) for w in ws]}, False
    return None, None, False


def witness_ok(task, G, wit):
    """plain validation: each multiplicity vector is balanced, leaves a source once, is connected; weights reproduce the flow"""
    ws = [Fraction(w) for w in wit["weights"]]
    S, T = F.sources_sinks(G)
    exp = {e: Fraction(0) for e in G.edges()}
    for mult, w in zip(wit["mults"], ws):
        M = nx.MultiDiGraph()
        for u, v, c in mult:
            if not G.has_edge(u, v) or c < 0:
                return False
            for _ in range(c):
                M.add_edge(u, v)
            exp[(u, v)] += c * w
        if M.number_of_edges() == 0:
            continue
        bal = {v: M.out_degree(v) - M.in_degree(v) for v in M.nodes()}
        st = [v for v, b in bal.items() if b == 1]
        en = [v for v, b in bal.items() if b == -1]
        if len(st) != 1 or len(en) != 1 or any(b not in (0, 1, -1) for b in bal.values()):
            return False
        if st[0] not in S or en[0] not in T:
            return False
        if not nx.is_weakly_connected(M):
            return False
        if w < 0:
            return False
    for (u, v) in G.edges():
        if [u, v] in task["ignored"] or (u, v) in task["ignored"]:
            continue
        if exp[(u, v)] != Fraction(G[u][v]["flow"]):
            return False
    for c in task["constraints"]:
        ok = False
        for mult in wit["mults"]:
            used = {(u, v) for u, v, cc in mult if cc > 0}
            if all(tuple(e) in used for e in c):
                ok = True
        if not ok:
            return False
    return True


def _spec_crosscheck(task, G, res):
    """trusted-base check: the Euler-vector spec and the explicit walk-sequence spec agree on satisfiability for every k"""
    dem = spec.demands_of(G, "flow", False, task["ignored"])
    L = int(sum(f for _e, f in dem)) + 2
    res["functions"] = ["(spec cross-validation, no repo code) spec.WalkEuler vs spec.WalkSeq"]
    for k in (1, 2, 3):
        _sp, cons = spec_k(task, G, k)
        s1 = smt.solver(120000)
        s1.add(cons)
        r1 = smt.check(s1)
        sq = spec.WalkSeq(G, k, L, wtype="int", tag="Q")
        s2 = smt.solver(120000)
        s2.add(sq.cons + spec.flow_decomposition(sq, dem))
        r2 = smt.check(s2)
        res["obligations"] += 1
        if "unknown" in (r1, r2):
            res["inconclusive"] += 1
        elif r1 == r2:
            res["discharged"] += 1
        else:
            res["harness_errors"].append(f"spec encodings disagree on {task['name']} k={k}: Euler {r1}, sequence {r2} (flow {task['edges']})")
        if r1 == "sat":
            break
    res["nontrivial"] += 1
    return res


def run_task(task):
    res = new_result()
    if task.get("specx"):
        res["evaluations"] = 1
        return _spec_crosscheck(task, models.graph_of(task), res)
    res["functions"] = ["MinFlowDecompCycles.solve/get_lowerbound_k", "kFlowDecompCycles.__init__/_encode_flow_decomposition", "AbstractWalkModelDiGraph.__init__/_encode_walks/_apply_safety_optimizations",
                        "stDiGraph.get_width/_build_condensation_expanded", "SolverWrapper.add_integer_continuous_product_constraint"]
    res["evaluations"] = 1
    G = models.graph_of(task)
    if task.get("scale"):
        return _scale_task(task, G, res)
    kmax = 4
    res["obligations"] += 1
    k_ref, wit, inc = reference_min_k(task, G, kmax)
    if inc:
        res["inconclusive"] += 1
        return res
    if k_ref is None:
        res["extra"]["no_reference_decomposition_within_kmax"] = 1
        return res
    res["discharged"] += 1
    res["nontrivial"] += 1 if k_ref >= 2 else 0
    desc = {"graph": task["name"], "edges": task["edges"], "kwargs": task["kwargs"], "k_ref": k_ref}
    with hx.capture() as sess:
        m, _G = models.construct(task)
        lb = m.get_lowerbound_k()
        ok = m.solve()
    statuses = [lp.honest_status for lp in sess.snaps]
    got = len(m.get_solution()["walks"]) if ok else None
    res["obligations"] += 1
    res["samples"].append({"obligation": "MinFlowDecompCycles.solve() solved with k == least k for which the Euler-walk spec is satisfiable", "instance": desc,
                           "solved": ok, "returned_k": got, "lowerbound": lb, "lp_statuses": statuses})
    if ok and got == k_ref:
        res["discharged"] += 1
    else:
        sig = _diagnose(m, ok, got, k_ref, lb, statuses)
        if ok and got < k_ref and not _returned_ok(task, G, m):
            # fewer walks than the certified minimum AND the plain checker rejects what was returned (flow / constraint): the model's fault
            sig = "returned-decomposition-invalid(fewer-walks-than-any-valid-decomposition)"
        res["violations"].append({"signature": f"MinFlowDecompCycles:{sig}",
                                  "summary": f"{task['name']}: solved={ok} returned k={got}, reference minimum k={k_ref}, lowerbound={lb}",
                                  "replay": {"kind": "wrapper", "task": task, "k_ref": k_ref, "witness": wit}})
    for k in range(1, min(k_ref + 1, 4) + 1):
        kt = _kfd_task(task, k)
        try:
            km, _ = models.construct(kt)
        except Exception:
            res["extra"]["kmodel_raised"] = res["extra"].get("kmodel_raised", 0) + 1
            continue
        lp = hx.snapshot_unsolved(km.solver)
        res["extra"]["programs"] = res["extra"].get("programs", 0) + 1
        res["obligations"] += 1
        r, _v = smt.feasible(lp, timeout_ms=90000)
        want = "sat" if k >= k_ref else "unsat"
        if r == "unknown":
            res["inconclusive"] += 1
        elif r == want:
            res["discharged"] += 1
        else:
            res["extra"]["disagreements_checked"] = res["extra"].get("disagreements_checked", 0) + 1
            sig = "LP_k-feasible-but-spec-unsat"
            if want == "sat":
                sig = "LP_k-infeasible-but-spec-sat:" + _cap_diagnosis(km, lp, wit)
            res["violations"].append({"signature": f"kFlowDecompCycles:{sig}",
                                      "summary": f"{task['name']}: k={k}: LP is {r}, spec says {want} (k_ref={k_ref})",
                                      "replay": {"kind": "kmodel", "task": kt, "k": k, "want": want, "witness": wit, "k_ref": k_ref, "wtask": task}})
    return res


def _cap_diagnosis(km, lp, wit):
    """does the spec witness need a multiplicity above the LP's column upper bound?"""
    try:
        cols = models.edge_cols(km)
        for mult in wit["mults"]:
            for u, v, c in mult:
                ub = lp.ub[cols[(u, v, 0)]]
                if ub is not None and c > ub:
                    return "witness-exceeds-repetition-cap"
    except Exception:
        pass
    return "other"


def _kfd_task(task, k, edges=None, wt=None):
    kw = {kk: vv for kk, vv in task["kwargs"].items() if kk != "optimization_options"}
    oo = copy.deepcopy(task["kwargs"].get("optimization_options", {}))
    for key in list(oo):
        if key.startswith("use_") or key in ("optimize_with_guessed_weights", "lowerbound_k"):
            oo.pop(key)
    kw["k"] = k
    kw["optimization_options"] = oo
    if wt:
        kw["weight_type"] = wt
    return {"cls": "kFlowDecompCycles", "name": task["name"], "edges": edges or task["edges"], "kwargs": kw, "starts": [], "ends": [], "ignored": task["ignored"]}


def _diagnose(m, ok, got, k_ref, lb, statuses):
    nE = m.G.number_of_edges()
    if lb is not None and lb > k_ref:
        return "lower-bound-exceeds-optimum"
    if not ok and k_ref >= nE and not any(s not in ("kInfeasible", "kOptimal") for s in statuses):
        return "search-range-ends-before-k=|E|"
    if not ok:
        return "unsolved-although-decomposition-exists"
    if got > k_ref:
        return "non-minimal"
    return "fewer-than-reference(spec-or-decode-disagreement)"


def _scale_task(task, G, res):
    """float weights: LP_k(c*f) feasible <=> LP_k(f) feasible for every k, and equal wrapper results."""
    c = task["scale"]
    scaled = [(u, v, f * c) for (u, v, f) in task["edges"]]
    outs = []
    for edges in (task["edges"], scaled):
        t = {**task, "edges": edges}
        try:
            m, _ = models.construct(t)
            ok = m.solve()
            outs.append((ok, len(m.get_solution()["walks"]) if ok else None))
        except Exception as e:
            outs.append(("raised:" + type(e).__name__, None))
    res["obligations"] += 1
    res["samples"].append({"obligation": "MinFlowDecompCycles(float) on f and on c*f: same solved status and number of walks", "graph": task["name"], "edges": task["edges"], "c": c, "results": outs})
    res["nontrivial"] += 1
    if outs[0] == outs[1]:
        res["discharged"] += 1
    else:
        res["violations"].append({"signature": f"MinFlowDecompCycles:scale-variance:{_scale_diag(task, c, outs)}",
                                  "summary": f"{task['name']}: f -> {outs[0]}, {c}*f -> {outs[1]}",
                                  "replay": {"kind": "scale", "task": task}})
    # LP level, all solver answers: feasibility of LP_k must not depend on c
    for k in (1, 2, 3):
        verdicts = []
        for edges in (task["edges"], scaled):
            try:
                km, _ = models.construct(_kfd_task(task, k, edges, "float"))
                lp = hx.snapshot_unsolved(km.solver)
                # float data: the scaled flow is conserved only up to rounding, so feasibility is read with the solver's
                # tolerance (TOL reading), as HiGHS does -- the exact reading of a rounded program would be vacuously unsat
                r, _v = smt.feasible(lp, eps=Fraction(1, 10 ** 9), timeout_ms=60000)
            except Exception as e:
                r = "raised:" + type(e).__name__
            verdicts.append(r)
        res["extra"]["programs"] = res["extra"].get("programs", 0) + 2
        res["obligations"] += 1
        if "unknown" in verdicts:
            res["inconclusive"] += 1
        elif verdicts[0] == verdicts[1]:
            res["discharged"] += 1
        else:
            res["extra"]["disagreements_checked"] = res["extra"].get("disagreements_checked", 0) + 1
            sigd = ("scaled-program-" + verdicts[1]) if verdicts[1].startswith("raised:") else _scale_diag(task, c)
            res["violations"].append({"signature": f"kFlowDecompCycles:scale-variance:{sigd}",
                                      "summary": f"{task['name']}: k={k}: LP(f) {verdicts[0]}, LP({c}*f) {verdicts[1]}",
                                      "replay": {"kind": "scale_k", "task": task, "k": k}})
    return res


def _scale_diag(task, c, outs=None):
    if outs and isinstance(outs[1][0], str) and outs[1][0].startswith("raised:"):
        return "scaled-flow-" + outs[1][0]          # the scaled input is rejected outright (e.g. an exact float conservation test)
    fmin = min(f for (_u, _v, f) in task["edges"])
    if fmin * c < 1:
        return "repetition-cap-from-flow-value<1"
    return "repetition-cap-from-flow-value"


def _returned_ok(task, G, m):
    """plain validation of what the wrapper returned: walks of G, weights reproduce the flow, constraints contained"""
    sol = m.get_solution()
    mults = []
    for w in sol["walks"]:
        cnt = {}
        for e in zip(w[:-1], w[1:]):
            cnt[e] = cnt.get(e, 0) + 1
        mults.append([[u, v, c] for (u, v), c in cnt.items()])
    return witness_ok(task, G, {"mults": mults, "weights": [str(Fraction(x)) for x in sol["weights"]]})


def replay(data):
    task = data["task"]
    if data["kind"] == "wrapper":
        G = models.graph_of(task)
        if not witness_ok(task, G, data["witness"]):
            print("  replay: spec witness rejected by the plain checker")
            return False
        m, _ = models.construct(task)
        ok = m.solve()
        got = len(m.get_solution()["walks"]) if ok else None
        print(f"  replay: MinFlowDecompCycles solved={ok} k={got}; valid decomposition with k={data['k_ref']}: {data['witness']}")
        if ok and got < data["k_ref"]:
            good = _returned_ok(task, G, m)
            print(f"  replay: returned walks {m.get_solution()['walks']} accepted by the plain checker (flow, constraints): {good}")
            return not good
        return (not ok) or got > data["k_ref"]
    if data["kind"] == "kmodel":
        G = models.graph_of(data["wtask"])
        if data["want"] == "sat" and not witness_ok(data["wtask"], G, data["witness"]):
            return False
        m, _ = models.construct(task)
        ok = m.solve()
        print(f"  replay: kFlowDecompCycles(k={data['k']}) solved={ok}, spec says {data['want']}")
        return ok != (data["want"] == "sat")
    if data["kind"] in ("scale", "scale_k"):
        c = task["scale"]
        outs = []
        for edges in (task["edges"], [(u, v, f * c) for (u, v, f) in task["edges"]]):
            t = {**task, "edges": edges} if data["kind"] == "scale" else _kfd_task(task, data["k"], edges, "float")
            try:
                m, _ = models.construct(t)
                ok = m.solve()
                outs.append((ok, len(m.get_solution()["walks"]) if ok and data["kind"] == "scale" else None))
            except Exception as e:
                outs.append(("raised:" + type(e).__name__, None))
        print(f"  replay: f -> {outs[0]}, {c}*f -> {outs[1]}")
        return outs[0] != outs[1]
    return False


RULE = ("one case = (digraph with cycles in which every edge lies on an s-t walk, positive integer flow from <= 3 weighted walks, options) or a scale-invariance pair; "
        "non-trivial = reference minimum >= 2 or a scale pair; programs = real kFlowDecompCycles LPs compared with the Euler-walk spec")
ASSUMPTIONS = [
    "reference minimum = least k for which z3 finds k Euler multiplicity vectors (balanced, unit source outflow, rank-connected; per-edge multiplicity <= flow value, valid for integer weights >= 1; weight-0 walks allowed) with integer weights reproducing the flow",
    "Euler vectors stand for walks: C14 shows the real reconstruction realises them, and the Euler spec is cross-validated against the explicit walk-sequence spec (length sum f + 2) on the instances with total flow <= 14 (disagreement = harness error)",
    "digraphs: curated shapes + sampled s/t graphs with <= 3 inner nodes; flow values <= 6, sum <= 30; k <= 4",
    "scale invariance compared on honest wrapper runs and by z3 feasibility of the captured LP_k for k <= 3",
]


def main(tier, seed):
    t0 = time.time()
    tasks = gen_tasks(tier, seed)
    acc = core.run_tasks(run_task, tasks, deadline_s=170 if tier == "quick" else 1500)
    bounds = {"inner_nodes_max": 3, "k_max": 4, "flow_max": 6, "scales": list(SCALES)}
    return core.finish(PID, tier, seed, LEVEL, acc, t0, RULE, ASSUMPTIONS, bounds, replay)
