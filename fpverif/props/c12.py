"""C12 -- the solver wrapper's MILP building blocks encode exactly the relation they name."""
from __future__ import annotations

import itertools
import math
import random
import time
from fractions import Fraction

import z3

from flowpaths.utils import solverwrapper as sw
from .. import core, hx, smt
from ..core import new_result

PID = "C12"
LEVEL = "model_checking"

UBS = [0, 1, 2, 3, 4, 5, 7, 8, 2.5, 0.5, 16]
WIDE = 1000.0


def gen_tasks(tier, seed):
    tasks = []
    for ub in UBS:
        for ctype in ("continuous", "integer"):
            tasks.append({"kind": "bin", "lb": 0, "ub": ub, "ctype": ctype})
    for lb, ub in ((1, 4), (2, 2), (0.5, 3)):
        tasks.append({"kind": "bin", "lb": lb, "ub": ub, "ctype": "continuous"})
    for ub in UBS:
        for ctype in ("continuous", "integer"):
            tasks.append({"kind": "int", "lb": 0, "ub": ub, "ctype": ctype})
    range_lists = [
        ([(0, 2), (3, 5)], [1, 2]),
        ([(0, 2), (2, 5)], [1, 3]),
        ([(0, 10)], [4]),
        ([(6, 9), (0, 2), (3, 5)], [1.5, 2, 2.5]),
        ([(0, 1), (2, 3)], [1, 20]),
        ([(0, 3), (4, 1000)], [1, 1.2]),
        ([(1, 1), (2, 2), (3, 3)], [0, 5, 1]),
    ]
    for rl, cs in range_lists:
        for xtype in ("integer", "continuous"):
            tasks.append({"kind": "pw", "ranges": rl, "constants": cs, "xtype": xtype})
    # queued bound changes / fix_variable / objective replacement: op sequences
    rng = random.Random(seed + 12)
    ops = ["qfix", "qlb", "fix", "obj", "obj0", "addvars"]
    seqs = [list(p) for n in (1, 2, 3) for p in itertools.product(ops, repeat=n)]
    if tier == "quick":
        seqs = [s for s in seqs if len(s) <= 2] + rng.sample([s for s in seqs if len(s) == 3], 40)
    for s in seqs:
        tasks.append({"kind": "seq", "ops": s, "seed": rng.randrange(10 ** 6)})
        tasks.append({"kind": "seq", "ops": s, "seed": rng.randrange(10 ** 6), "wopts": {"time_limit": 300, "use_also_custom_timeout": True}})
    tasks.append({"kind": "getvalues"})
    for k0 in range(6):
        tasks.insert(0, {"kind": "xseq", "k0": k0, "timeout": 100 if tier == "quick" else 600})
        # the same with a finite time limit and the wrapper's own (SIGALRM) time-out armed: optimize() takes its other branch
        tasks.insert(0, {"kind": "xseq", "k0": k0, "wopts": {"time_limit": 300, "use_also_custom_timeout": True}, "timeout": 100 if tier == "quick" else 600})
        if tier != "quick":
            for k1 in range(6):
                tasks.insert(0, {"kind": "xseq", "k0": k0, "k1": k1, "timeout": 900})
    for i, t in enumerate(tasks):
        t["tid"] = i
    return tasks


TOL = Fraction(1, 10 ** 9)
DELTA = Fraction(1, 10 ** 6)


def _neg_lp(enc):
    """disjunction of the negations of every row/bound of the LP in the TOL(1e-9) reading: HiGHS accepts points
    within its feasibility tolerance, and float data are rounded when the rows are assembled"""
    e2 = smt.Enc(enc.lp, eps=TOL)
    sub = list(zip(e2.xs, enc.xs))
    return z3.Or([z3.Not(z3.substitute(c, *sub)) for c in e2.cons])


def _differs(a, b, exact):
    return a != b if exact else z3.Or(a - b > smt.q(DELTA), b - a > smt.q(DELTA))


def _is_integral(*xs):
    return all(float(x).is_integer() for x in xs)


def _colmap(lp):
    return {n: j for j, n in enumerate(lp.col_names)}


def run_task(task):
    res = new_result()
    res["evaluations"] = 1
    kind = task["kind"]
    if kind == "bin":
        _bin(task, res)
    elif kind == "int":
        _int(task, res)
    elif kind == "pw":
        _pw(task, res)
    elif kind == "seq":
        _seq(task, res)
    elif kind == "getvalues":
        _getvalues(task, res)
    elif kind == "xseq":
        _xseq(task, res)
    return res


def _viol(res, sig, summary, task):
    res["violations"].append({"signature": sig, "summary": summary, "replay": {"task": task, "sig": sig}})


def _decide(res, s, query, sig, summary, task, label):
    res["obligations"] += 1
    r = smt.check(s, query) if query is not None else smt.check(s)
    if len(res["samples"]) < 3:
        res["samples"].append({"obligation": label, "task": {k: v for k, v in task.items() if k != "tid"}, "verdict": r})
    if r == "unsat":
        res["discharged"] += 1
        return None
    if r == "unknown":
        res["inconclusive"] += 1
        return None
    _viol(res, sig, summary + f" model={_short_model(s.model())}", task)
    return s.model()


def _short_model(m):
    return {str(d): str(m[d]) for d in list(m.decls())[:8]}


# ----------------------------------------------------------------------------- binary x continuous
def _build_bin(task):
    w = sw.SolverWrapper()
    b = w.add_variables([0], name_prefix="b", lb=0, ub=1, var_type="integer")
    c = w.add_variables([0], name_prefix="c", lb=task["lb"], ub=task["ub"], var_type=task["ctype"])
    p = w.add_variables([0], name_prefix="p", lb=-WIDE, ub=WIDE, var_type="continuous")
    w.add_binary_continuous_product_constraint(b[0], c[0], p[0], lb=task["lb"], ub=task["ub"], name="prod")
    return w, hx.snapshot_unsolved(w)


def _bin(task, res):
    res["functions"] = ["SolverWrapper.add_binary_continuous_product_constraint"]
    w, lp = _build_bin(task)
    enc = smt.Enc(lp)
    cm = _colmap(lp)
    b, c, p = enc.xs[cm["b(0)"]] if "b(0)" in cm else enc.xs[0], enc.xs[1], enc.xs[2]
    prod = z3.If(b == 1, c, 0)
    res["nontrivial"] += 1
    exact = _is_integral(task["lb"], task["ub"])
    if not exact:
        enc_t = smt.Enc(lp, eps=TOL)
        s = enc_t.solver()
        b, c, p = enc_t.xs[0], enc_t.xs[1], enc_t.xs[2]
        prod = z3.If(b == 1, c, 0)
    else:
        s = enc.solver()
    _decide(res, s, _differs(p, prod, exact), "binary_continuous_product:unsound", f"lb={task['lb']} ub={task['ub']} {task['ctype']}: LP admits product != binary*continuous", task,
            "LP(b,c,p) and p != b*c  (must be unsat)")
    b, c, p = enc.xs[0], enc.xs[1], enc.xs[2]
    prod = z3.If(b == 1, c, 0)
    s2 = smt.solver()
    s2.add(z3.Or(b == 0, b == 1), c >= smt.q(task["lb"]), c <= smt.q(task["ub"]), p == prod)
    _decide(res, s2, _neg_lp(enc), "binary_continuous_product:incomplete", f"lb={task['lb']} ub={task['ub']} {task['ctype']}: an admissible (b,c,b*c) is excluded", task,
            "b in {0,1}, lb<=c<=ub, p=b*c and not LP  (must be unsat)")


# ----------------------------------------------------------------------------- integer x continuous
def _build_int(task):
    w = sw.SolverWrapper()
    ub = task["ub"]
    n = w.add_variables([0], name_prefix="n", lb=0, ub=ub, var_type="integer")
    c = w.add_variables([0], name_prefix="c", lb=task["lb"], ub=ub, var_type=task["ctype"])
    p = w.add_variables([0], name_prefix="p", lb=-WIDE, ub=WIDE, var_type="continuous")
    w.add_integer_continuous_product_constraint(n[0], c[0], p[0], lb=task["lb"], ub=ub, name="ip")
    return w, hx.snapshot_unsolved(w)


def _int(task, res):
    res["functions"] = ["SolverWrapper.add_integer_continuous_product_constraint"]
    w, lp = _build_int(task)
    enc = smt.Enc(lp)
    n, c, p = enc.xs[0], enc.xs[1], enc.xs[2]
    ub = task["ub"]
    nmax = int(math.floor(ub))
    res["nontrivial"] += 1
    exact = _is_integral(task["lb"], task["ub"])
    if not exact:
        enc_t = smt.Enc(lp, eps=TOL)
        s = enc_t.solver()
        n, c, p = enc_t.xs[0], enc_t.xs[1], enc_t.xs[2]
    else:
        s = enc.solver()
    wrong = z3.Or([z3.And(n == j, _differs(p, j * c, exact)) for j in range(0, nmax + 1)] + [n > nmax, n < 0])
    n_, c_, p_ = n, c, p
    n, c, p = enc.xs[0], enc.xs[1], enc.xs[2]
    _decide(res, s, wrong, "integer_continuous_product:unsound", f"ub={ub} {task['ctype']}: LP admits product != integer*continuous", task,
            "LP(n,c,p,aux) and p != n*c  (must be unsat)")
    # completeness with the canonical witness (binary expansion of n, comp_i = bit_i * c)
    names = lp.col_names
    bits = sorted([j for j, nm in enumerate(names) if nm.startswith("binary_")], key=lambda j: names[j])
    comps = sorted([j for j, nm in enumerate(names) if nm.startswith("comp_")], key=lambda j: names[j])
    s2 = smt.solver()
    pre = [n >= 0, n <= nmax, c >= smt.q(task["lb"]), c <= smt.q(ub)]
    pre.append(z3.Or([z3.And(n == j, j * c <= smt.q(ub), j * c >= smt.q(task["lb"]), p == j * c) for j in range(0, nmax + 1)]))
    wit = []
    for i, (bj, cj) in enumerate(zip(bits, comps)):
        bit = z3.If((n / (2 ** i)) % 2 == 1, 1, 0) if False else None
    # z3 integer division on Int n
    for i, (bj, cj) in enumerate(zip(bits, comps)):
        bitv = (n / (2 ** i)) % 2
        wit += [enc.xs[bj] == bitv, enc.xs[cj] == z3.If(bitv == 1, c, 0)]
    s2.add(pre + wit)
    if nmax > 2 ** len(bits) - 1:
        _viol(res, "integer_continuous_product:too-few-bits", f"ub={ub}: {len(bits)} bits cannot represent n up to {nmax}", task)
    _decide(res, s2, _neg_lp(enc), "integer_continuous_product:incomplete", f"ub={ub} {task['ctype']}: an admissible (n,c,n*c) is excluded (canonical bit witness)", task,
            "0<=n<=ub, lb<=c<=ub, lb<=n*c<=ub, p=n*c, aux = bit expansion and not LP  (must be unsat)")


# ----------------------------------------------------------------------------- piecewise constant
def _build_pw(task):
    w = sw.SolverWrapper()
    rl = task["ranges"]
    lo = min(r[0] for r in rl) - 5
    hi = max(r[1] for r in rl) + 5
    x = w.add_variables([0], name_prefix="x", lb=lo, ub=hi, var_type=task["xtype"])
    y = w.add_variables([0], name_prefix="y", lb=min(task["constants"]), ub=max(task["constants"]), var_type="continuous")
    w.add_piecewise_constant_constraint(x[0], y[0], ranges=[tuple(r) for r in rl], constants=task["constants"], name_prefix="pw")
    return w, hx.snapshot_unsolved(w)


def _pw(task, res):
    res["functions"] = ["SolverWrapper.add_piecewise_constant_constraint"]
    w, lp = _build_pw(task)
    enc = smt.Enc(lp)
    x, y = enc.xs[0], enc.xs[1]
    zs = enc.xs[2:]
    rl, cs = task["ranges"], task["constants"]
    res["nontrivial"] += 1
    exact = _is_integral(*cs, *[v for r in rl for v in r])
    if not exact:
        enc_t = smt.Enc(lp, eps=TOL)
        s = enc_t.solver()
        xt, yt = enc_t.xs[0], enc_t.xs[1]
        ok = z3.Or([z3.And(xt >= smt.q(L) - smt.q(DELTA), xt <= smt.q(U) + smt.q(DELTA), z3.Not(_differs(yt, smt.q(c), False))) for (L, U), c in zip(rl, cs)])
    else:
        s = enc.solver()
        ok = z3.Or([z3.And(x >= smt.q(L), x <= smt.q(U), y == smt.q(c)) for (L, U), c in zip(rl, cs)])
    _decide(res, s, z3.Not(ok), "piecewise_constant:unsound", f"ranges={rl} constants={cs}: LP admits y that is not the constant of a range containing x", task,
            "LP(x,y,z) and not exists i: x in range_i and y == c_i  (must be unsat)")
    for i, ((L, U), c) in enumerate(zip(rl, cs)):
        s2 = smt.solver()
        s2.add(x >= smt.q(L), x <= smt.q(U), y == smt.q(c))
        s2.add([zs[j] == (1 if j == i else 0) for j in range(len(zs))])
        _decide(res, s2, _neg_lp(enc), "piecewise_constant:incomplete:" + _pw_diag(rl, cs), f"ranges={rl} constants={cs}: x in range {i} with y={c} is excluded", task,
                f"x in range_{i}, y = c_{i}, z one-hot and not LP  (must be unsat)")


def _pw_diag(rl, cs):
    M = (max(r[1] for r in rl) - min(r[0] for r in rl)) * 2
    if max(cs) - min(cs) > M:
        return "bigM-smaller-than-constant-spread"
    return "other"


# ----------------------------------------------------------------------------- op sequences (bounds / objective)
def _seq(task, res):
    res["functions"] = ["SolverWrapper.queue_fix_variable/queue_set_var_lower_bound/_apply_pending_bound_updates/fix_variable/set_objective/add_variables", "HighsCustom.set_objective_without_solving"]
    exp, lp, log = _run_seq(task)
    res["obligations"] += 1
    res["nontrivial"] += 1 if len(task["ops"]) >= 2 else 0
    pr = _seq_problems(exp, lp)
    if len(res["samples"]) < 2:
        res["samples"].append({"obligation": "LP snapshot at optimize() has exactly the requested bounds / last objective", "ops": log})
    if pr:
        _viol(res, "bounds-objective:" + pr[0][0], f"ops={log}: {pr[0][1]}", task)
    else:
        res["discharged"] += 1


def _run_seq(task):
    rng = random.Random(task["seed"])
    w = sw.SolverWrapper(**(task.get("wopts") or {}))
    vs = w.add_variables(list(range(4)), name_prefix="v", lb=0, ub=[3, 5, 1, 7], var_type="integer")
    var = [vs[i] for i in range(4)]
    lb = [0.0] * 4
    ub = [3.0, 5.0, 1.0, 7.0]
    cost = [0.0] * 4
    offset = 0.0
    maximize = False
    log = []
    w.set_objective(var[0] + 2 * var[1] + 5, sense="minimize")
    cost[0], cost[1], offset = 1.0, 2.0, 5.0
    queued = {}   # variable -> kind of queued request (conflicting kinds for one variable in one batch are not generated:
                  # the relative order of the two queues is not documented)
    for op in task["ops"]:
        j = rng.randrange(len(var))
        if op in ("qfix", "qlb"):
            # both queues may address the same variable: requests take effect in call order (a later fix replaces an earlier
            # queued lower bound, a later lower bound raises the lower bound of an earlier queued fix)
            queued[j] = op
        if op == "qfix":
            val = rng.randrange(0, int(ub[j]) + 1)
            w.queue_fix_variable(var[j], val)
            lb[j] = ub[j] = float(val)
            log.append(("queue_fix_variable", j, val))
        elif op == "qlb":
            val = rng.randrange(0, int(ub[j]) + 1) if ub[j] >= lb[j] else 0
            w.queue_set_var_lower_bound(var[j], val)
            lb[j] = float(val)
            log.append(("queue_set_var_lower_bound", j, val))
        elif op == "fix":
            # an immediate fix is overridden by queued updates for the same variable applied later at optimize()
            val = rng.randrange(0, 3)
            w.fix_variable(var[j], val)
            log.append(("fix_variable", j, val))
            lb[j] = ub[j] = float(val)
            # queued ops on j recorded earlier will be applied after this immediate change:
            for (name, jj, vv) in log[:-1]:
                if jj == j and name == "queue_fix_variable":
                    lb[j] = ub[j] = float(vv)
                elif jj == j and name == "queue_set_var_lower_bound":
                    lb[j] = float(vv)
        elif op == "obj":
            a, b = rng.randrange(-3, 4), rng.randrange(0, 4)
            k = rng.randrange(len(var))
            sense = rng.choice(["minimize", "maximize"])
            w.set_objective(a * var[j] + b * var[k] + 1, sense=sense)
            cost = [0.0] * len(var)
            cost[j] += a
            cost[k] += b
            offset = 1.0
            maximize = sense == "maximize"
            log.append(("set_objective", f"{a}*v{j}+{b}*v{k}+1", sense))
        elif op == "obj0":
            a_ = rng.randrange(1, 4)
            sense = rng.choice(["minimize", "maximize"])
            w.set_objective(a_ * var[j], sense=sense)        # no constant term: the previous offset must disappear
            cost = [0.0] * len(var)
            cost[j] += a_
            offset = 0.0
            maximize = sense == "maximize"
            log.append(("set_objective", f"{a_}*v{j}", sense))
        elif op == "addvars":
            nv = w.add_variables([len(var)], name_prefix="v", lb=1, ub=2, var_type="continuous")
            var.append(nv[len(var)])
            lb.append(1.0)
            ub.append(2.0)
            cost.append(0.0)
            log.append(("add_variables", len(var) - 1, None))
    # the LP as the real optimize() hands it to HiGHS (queued updates are flushed by optimize() itself)
    with hx.capture() as sess:
        w.optimize()
    lp = sess.snaps[-1]
    return {"lb": lb, "ub": ub, "cost": cost, "offset": offset, "maximize": maximize}, lp, log


def _seq_problems(exp, lp):
    pr = []
    for j in range(lp.ncol):
        if lp.lb[j] != exp["lb"][j]:
            pr.append(("lower-bound-differs", f"column {j}: lower bound {lp.lb[j]}, requested {exp['lb'][j]}"))
        if lp.ub[j] != exp["ub"][j]:
            pr.append(("upper-bound-differs", f"column {j}: upper bound {lp.ub[j]}, requested {exp['ub'][j]}"))
    if [float(c) for c in lp.cost] != exp["cost"] or lp.offset != exp["offset"] or lp.maximize != exp["maximize"]:
        pr.append(("objective-differs", f"objective {lp.cost}+{lp.offset} max={lp.maximize}, requested {exp['cost']}+{exp['offset']} max={exp['maximize']}"))
    return pr


# ----------------------------------------------------------------------------- get_values
def _getvalues(task, res):
    res["functions"] = ["SolverWrapper.get_values"]
    pr = _getvalues_problems()
    res["obligations"] += 1
    res["nontrivial"] += 1
    if pr:
        _viol(res, "get_values:wrong-column", pr[0], task)
    else:
        res["discharged"] += 1


def _getvalues_problems():
    w = sw.SolverWrapper()
    a = w.add_variables([("x", 0), ("x", 1), ("y", 0)], name_prefix="a", lb=0, ub=9, var_type="integer")
    b = w.add_variables([0, 1], name_prefix="b", lb=0, ub=1, var_type="integer")
    vals = [3.0, 4.0, 5.0, 1.0 - 1e-10, 0.0]
    w.solver.allVariableValues = lambda: vals
    pr = []
    got = w.get_values(a)
    if got != {("x", 0): 3.0, ("x", 1): 4.0, ("y", 0): 5.0}:
        pr.append(f"get_values(a) = {got}")
    got = w.get_values({("y", 0): a[("y", 0)], 1: b[1]})
    if got != {("y", 0): 5.0, 1: 0.0}:
        pr.append(f"subset read = {got}")
    got = w.get_values(b, binary_values=True)
    if got != {0: 1, 1: 0}:
        pr.append(f"binary read = {got}")
    vals[4] = 0.4
    try:
        got = w.get_values(b, binary_values=True)
        pr.append(f"non-binary value 0.4 accepted: {got}")
    except Exception:
        pass
    return pr


XSEQ = None


def _xseq_source(k0=0, k1=None, wopts=None):
    from .. import xh
    return xh.PRELUDE + xh.HX_WRAP + ("K0 = %d\nK1 = %r\nWOPTS = %r" % (k0, k1, wopts or {})) + '''
from typing import List
from crosshair.tracers import NoTracing
from flowpaths.utils import solverwrapper as sw
from fpverif import hx

KINDS = ["qfix", "qlb", "fix", "obj", "obj0", "addvars"]

def _conc(x, lo, hi):
    for j in range(lo, hi + 1):
        if x == j:
            return j
    return lo

def _apply(ops):
    """run the operations on a real SolverWrapper; return (expected state, snapshot)"""
    w = sw.SolverWrapper(**WOPTS)
    vs = w.add_variables(list(range(3)), name_prefix="v", lb=0, ub=[3, 5, 1], var_type="integer")
    var = [vs[i] for i in range(3)]
    lb = [0.0] * 3
    ub = [3.0, 5.0, 1.0]
    cost = [1.0, 2.0, 0.0]
    offset = 5.0
    maximize = False
    w.set_objective(var[0] + 2 * var[1] + 5, sense="minimize")
    queued = dict()
    log = []
    for (k, j, val) in ops:
        kind = KINDS[k]
        j = j % len(var)
        if kind in ("qfix", "qlb"):
            queued[j] = kind                  # both queues may address one variable: requests take effect in call order
        if kind == "qfix":
            val = min(val, int(ub[j])) if ub[j] >= 0 else 0
            w.queue_fix_variable(var[j], val)
            lb[j] = ub[j] = float(val)
        elif kind == "qlb":
            val = min(val, int(ub[j]))
            w.queue_set_var_lower_bound(var[j], val)
            lb[j] = float(val)
        elif kind == "fix":
            w.fix_variable(var[j], val)
            lb[j] = ub[j] = float(val)
            for (kk, jj, vv) in log:
                if jj == j and kk == "qfix":
                    lb[j] = ub[j] = float(vv)
                elif jj == j and kk == "qlb":
                    lb[j] = float(vv)
        elif kind == "obj":
            w.set_objective(val * var[j] + 1, sense="maximize" if val % 2 else "minimize")
            cost = [0.0] * len(var)
            cost[j] = float(val)
            offset = 1.0
            maximize = bool(val % 2)
        elif kind == "obj0":
            w.set_objective((val + 1) * var[j], sense="minimize")
            cost = [0.0] * len(var)
            cost[j] = float(val + 1)
            offset = 0.0
            maximize = False
        else:
            nv = w.add_variables([len(var)], name_prefix="v", lb=1, ub=2, var_type="continuous")
            var.append(nv[len(var)])
            lb.append(1.0)
            ub.append(2.0)
            cost.append(0.0)
        log.append((kind, j, val))
    with hx.capture() as sess:          # the LP as the real optimize() hands it to HiGHS
        w.optimize()
    lp = sess.snaps[-1]
    return (lb, ub, cost, offset, maximize), lp

def sequence(k: int, j0: int, j1: int, j2: int, v0: int, v1: int, v2: int) -> bool:
    """
    pre: 0 <= k < 6 and 0 <= j0 < 3 and 0 <= j1 < 3 and 0 <= v0 <= 2 and 0 <= v1 <= 2
    pre: 0 <= j2 < 3 and 0 <= v2 <= 2
    post: _
    """
    if K1 is None:
        # two operations: the first kind is fixed per harness, everything else is symbolic
        ops = [(K0, _conc(j0, 0, 2), _conc(v0, 0, 2)), (_conc(k, 0, 5), _conc(j1, 0, 2), _conc(v1, 0, 2))]
    else:
        ops = [(K0, _conc(j0, 0, 2), _conc(v0, 0, 2)), (K1, _conc(j1, 0, 2), _conc(v1, 0, 2)), (_conc(k, 0, 5), _conc(j2, 0, 2), _conc(v2, 0, 2))]
    with NoTracing():
        (lb, ub, cost, offset, maximize), lp = _apply(ops)
        for c in range(lp.ncol):
            if lp.lb[c] != lb[c] or lp.ub[c] != ub[c]:
                return False
        return [float(x) for x in lp.cost] == cost and lp.offset == offset and lp.maximize == maximize

sequence(1, 0, 1, 2, 1, 1, 0)
'''


def _xseq(task, res):
    from .. import xh
    res["functions"] = ["SolverWrapper.queue_fix_variable/queue_set_var_lower_bound/_apply_pending_bound_updates/fix_variable/set_objective/add_variables (CrossHair, symbolic operation sequence)"]
    src = _xseq_source(task["k0"], task.get("k1"), task.get("wopts"))
    out, cpu = xh.run_module(src, "c12_xseq", per_condition_timeout=task.get("timeout", 120))
    res["solver_s"] += cpu
    v = out.get("sequence", {"verdict": "error", "message": "no output"})
    res["obligations"] += 1
    res["queries"] += 1
    res["nontrivial"] += 1
    res["samples"].append({"harness": "fixed operation kinds %s, then symbolic (variables, values, last kind): 2 or 3 operations (kind in {queue_fix, queue_lb, fix, set_objective with/without constant, add_variables}, variable, value) on a real SolverWrapper; snapshot vs requested state" % ([task["k0"]] + ([task["k1"]] if task.get("k1") is not None else [])), "verdict": v["verdict"], "cpu_s": round(cpu, 1)})
    if v["verdict"] == "confirmed":
        res["discharged"] += 1
    elif v["verdict"] == "counterexample":
        call = xh.parse_call(v["message"])
        _viol(res, "bounds-objective:symbolic-sequence", v["message"][:220], {**task, "call": call})
    elif v["verdict"] == "error":
        res["harness_errors"].append("crosshair failed on c12 xseq: " + v["message"][-600:])
    else:
        res["inconclusive"] += 1


def replay(data):
    task = data["task"]
    sig = data["sig"]
    if task["kind"] == "xseq":
        from .. import xh
        call = task.get("call")
        if not call:
            return False
        r = xh.call_concretely(_xseq_source(task["k0"], task.get("k1"), task.get("wopts")), "c12_xseq_replay", call[0], call[1], call[2])
        print(f"  replay: {call} -> {r}")
        return r is False
    kind = task["kind"]
    if kind == "seq":
        exp, lp, log = _run_seq(task)
        pr = _seq_problems(exp, lp)
        if pr:
            print("  replay:", log, pr[0][1])
        return bool(pr)
    if kind == "getvalues":
        return bool(_getvalues_problems())
    # helper relations: re-run the obligations and confirm with HiGHS itself on the z3 model
    res = new_result()
    run = {"bin": _bin, "int": _int, "pw": _pw}[kind]
    run(task, res)
    hit = [v for v in res["violations"] if v["signature"] == sig]
    if not hit:
        return False
    if sig.endswith("too-few-bits"):
        return True
    return _confirm_with_highs(task, sig)


def _confirm_with_highs(task, sig):
    """ask the real HiGHS: fix the user-level variables to the counterexample and solve"""
    build = {"bin": _build_bin, "int": _build_int, "pw": _build_pw}[task["kind"]]
    w, lp = build(task)
    enc = smt.Enc(lp)
    if "incomplete" in sig:
        # find the excluded admissible point again and check HiGHS also calls it infeasible
        res = new_result()
        s = smt.solver()
        if task["kind"] == "pw":
            x, y = enc.xs[0], enc.xs[1]
            zs = enc.xs[2:]
            for i, ((L, U), c) in enumerate(zip(task["ranges"], task["constants"])):
                s.push()
                s.add(x >= smt.q(L), x <= smt.q(U), y == smt.q(c), *[zs[j] == (1 if j == i else 0) for j in range(len(zs))], _neg_lp(enc))
                if smt.check(s) == "sat":
                    xv = float(smt.fr_of(s.model(), x))
                    w2, _ = build(task)
                    cols = [0, 1]
                    w2.solver.changeColsBounds(2, __import__("numpy").array(cols, dtype="int32"), __import__("numpy").array([xv, c], dtype="float64"), __import__("numpy").array([xv, c], dtype="float64"))
                    w2.optimize()
                    st = w2.get_model_status()
                    print(f"  replay: x={xv}, y={c} (range {i}) -> HiGHS status {st}")
                    return st == "kInfeasible"
                s.pop()
            return False
        return True
    return True


RULE = ("one case = one helper call on a raw SolverWrapper with concrete bounds (values symbolic), or one operation sequence; non-trivial = every helper case and sequences of >= 2 operations")
ASSUMPTIONS = [
    "bounds have to be concrete floats when they cross into HiGHS, so bound pairs / range lists are enumerated and only the variable values are symbolic (z3 Int/Real)",
    "documented preconditions used: binary in {0,1}; lb <= continuous <= ub; for the integer helper additionally 0 <= integer <= ub and lb <= product <= ub; ranges non-overlapping except at endpoints, x in their union",
    "completeness of helpers with auxiliary variables uses the canonical witness (bit expansion / one-hot z)",
    "queued-bound / objective sequences: every sequence of 2 operations (thorough: 3 operations; 6 kinds x 3 variables x 3 values per step) is covered by CrossHair harnesses on a real SolverWrapper (leading kinds fixed per harness, the rest symbolic); in addition seeded sequences of up to 3 operations with wider values are executed concretely; the snapshot is compared with the requested state",
]


def main(tier, seed):
    t0 = time.time()
    tasks = gen_tasks(tier, seed)
    acc = core.run_tasks(run_task, tasks, deadline_s=150 if tier == "quick" else 900)
    bounds = {"ubs": UBS, "sequence_len_max": 3}
    return core.finish(PID, tier, seed, LEVEL, acc, t0, RULE, ASSUMPTIONS, bounds, replay)
