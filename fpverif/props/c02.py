"""C02 -- flow decompositions explain every non-ignored edge's (node's) flow exactly."""
from __future__ import annotations

import random
import time
from fractions import Fraction

import networkx as nx
import z3

from .. import checkers, core, families as F, instances as I, layers, models, smt, hx
from ..core import HarnessError, new_result
from . import c01

PID = "C02"
LEVEL = "model_checking"
FLOAT_DELTA = Fraction(1, 10 ** 6)


def gen_tasks(tier, seed):
    rng = random.Random(seed + 2)
    tasks = []
    nog = {"optimize_with_greedy": False}
    for name, es in I.dag_graphs(tier, rng, quick_n=8, thorough_n5=80):
        fl = I.dag_flow(es, rng)
        if fl is None:
            continue
        G = nx.DiGraph(es)
        routes = F.dag_routes(G)
        k = min(3, max(1, len(routes)))
        wedges = I.with_flow(es, fl)
        base = {"name": name, "starts": [], "ends": [], "ignored": []}
        for wt in ("int", "float"):
            tasks.append({**base, "cls": "kFlowDecomp", "edges": wedges, "kwargs": {"k": k, "weight_type": wt, "optimization_options": nog}})
            tasks.append({**base, "cls": "kFlowDecomp", "edges": wedges, "kwargs": {"k": k + 1, "weight_type": wt}})  # greedy route when it fits
            tasks.append({**base, "cls": "MinFlowDecomp", "edges": wedges, "kwargs": {"weight_type": wt}})
            tasks.append({**base, "cls": "MinFlowDecomp", "edges": wedges, "kwargs": {"weight_type": wt, "optimization_options": nog}})
        # float-valued flows
        fedges = [(u, v, f * 0.5) for (u, v, f) in wedges]
        tasks.append({**base, "cls": "kFlowDecomp", "edges": fedges, "kwargs": {"k": k, "weight_type": "float", "optimization_options": nog}})
        tasks.append({**base, "cls": "MinFlowDecomp", "edges": fedges, "kwargs": {"weight_type": "float", "optimization_options": nog}})
        # given weights model
        vals = sorted(set(fl.values()))
        tasks.append({**base, "cls": "kFlowDecomp", "edges": wedges, "allow_empty": True,
                      "kwargs": {"k": k + 1, "weight_type": "int", "solution_weights_superset": vals + vals, "optimization_options": {}}})
        tasks.append({**base, "cls": "MinFlowDecomp", "edges": wedges,
                      "kwargs": {"weight_type": "int", "optimization_options": {"optimize_with_guessed_weights": True, "optimize_with_greedy": False}}})
        # ignored edge (decomposition only has to explain the rest) -- weights of the other edges stay conserving w.r.t. some solution
        e0 = rng.choice(es)
        tasks.append({**base, "cls": "kFlowDecomp", "edges": wedges, "ignored": [e0],
                      "kwargs": {"k": k, "weight_type": "int", "elements_to_ignore": [e0], "optimization_options": nog}})
        tasks.append({**base, "cls": "MinFlowDecomp", "edges": wedges, "ignored": [e0],
                      "kwargs": {"weight_type": "int", "elements_to_ignore": [e0]}})
        # zero-flow edges (flow = routes that do not cover every edge) together with ignored edge pairs: the
        # decomposition must still put nothing on a non-ignored zero-flow edge
        if len(routes) >= 2 and len(es) >= 3:
            for _rep in range(2):
                sub = rng.sample(routes, rng.choice([1, 2]))
                zf = F.flow_from_routes(G, sub, [rng.choice((1, 2, 3)) for _ in sub])
                if all(zf.values()):
                    continue
                zedges = I.with_flow(es, zf)
                ign2 = [list(e) for e in rng.sample(es, 2)]
                tasks.append({**base, "cls": "kFlowDecomp", "edges": zedges, "ignored": ign2,
                              "kwargs": {"k": len(sub) + 1, "weight_type": "int", "elements_to_ignore": ign2, "optimization_options": nog}})
                tasks.append({**base, "cls": "MinFlowDecomp", "edges": zedges, "ignored": ign2,
                              "kwargs": {"weight_type": "int", "elements_to_ignore": ign2}})
                tasks.append({**base, "cls": "kFlowDecomp", "edges": zedges, "kwargs": {"k": len(sub) + 1, "weight_type": "int", "optimization_options": nog}})
        # subpath constraint
        sp = rng.choice(I.contiguous_subpaths(es, 2))
        tasks.append({**base, "cls": "kFlowDecomp", "edges": wedges, "kwargs": {"k": k + 1, "weight_type": "int", "subpath_constraints": [sp], "optimization_options": nog}})
        tasks.append({**base, "cls": "MinFlowDecomp", "edges": wedges, "kwargs": {"weight_type": "int", "subpath_constraints": [sp]}})
        # node weighted
        ws = [rng.choice((1, 2, 3)) for _ in routes[:3]]
        nf = I.node_weights_from_routes(G, routes[:3], ws)
        if all(nf[v] > 0 for v in G.nodes()):
            tasks.append({**base, "cls": "MinFlowDecomp", "edges": es, "node_flow": nf, "node_mode": True,
                          "kwargs": {"flow_attr_origin": "node", "weight_type": "int"}})
            if any(G.in_degree(v) > 0 and G.out_degree(v) > 0 for v in G.nodes()):
                tasks.append({**base, "cls": "kFlowDecomp", "edges": es, "node_flow": nf, "node_mode": True,
                              "kwargs": {"flow_attr_origin": "node", "weight_type": "int", "k": min(3, len(routes))}})
    for name, es in I.digraphs(tier, rng, quick_n=8, thorough_n=120):
        wf = I.walk_flow(es, rng)
        if wf is None:
            continue
        fl, walks, wts = wf
        if max(fl.values()) > 6:
            continue
        k = len(walks)
        wedges = I.with_flow(es, fl)
        base = {"name": name, "starts": [], "ends": [], "ignored": []}
        tasks.append({**base, "cls": "kFlowDecompCycles", "edges": wedges, "kwargs": {"k": k, "weight_type": "int"}})
        tasks.append({**base, "cls": "kFlowDecompCycles", "edges": wedges, "kwargs": {"k": k + 1, "weight_type": "int", "optimization_options": {"optimize_with_safe_sequences": False}}})
        tasks.append({**base, "cls": "kFlowDecompCycles", "edges": wedges, "kwargs": {"k": k, "weight_type": "float"}})
        tasks.append({**base, "cls": "MinFlowDecompCycles", "edges": wedges, "kwargs": {"weight_type": "int"}})
        tasks.append({**base, "cls": "MinFlowDecompCycles", "edges": wedges, "kwargs": {"weight_type": "int", "optimization_options": {"optimize_with_guessed_weights": True}}})
        e0 = rng.choice(es)
        tasks.append({**base, "cls": "kFlowDecompCycles", "edges": wedges, "ignored": [e0], "kwargs": {"k": k, "weight_type": "int", "elements_to_ignore": [e0]}})
        G = nx.DiGraph(es)
        nf = I.node_weights_from_routes(G, walks, wts)
        if max(nf.values()) <= 6:
            tasks.append({**base, "cls": "kFlowDecompCycles", "edges": es, "node_flow": nf, "node_mode": True,
                          "kwargs": {"flow_attr_origin": "node", "weight_type": "int", "k": k}})
            tasks.append({**base, "cls": "MinFlowDecompCycles", "edges": es, "node_flow": nf, "node_mode": True,
                          "kwargs": {"flow_attr_origin": "node", "weight_type": "int"}})
    # E1b: CrossHair through the real get_solution() with every LP column symbolic (integer models, small LPs)
    off = {"optimize_with_greedy": False, "optimize_with_flow_safe_paths": False, "optimize_with_safe_paths": False}
    e1b = [
        {"cls": "kFlowDecomp", "name": "diamond_cross", "edges": [("a", "b", 3), ("a", "c", 2), ("b", "d", 2), ("c", "d", 3), ("b", "c", 1)], "kwargs": {"k": 3, "weight_type": "int", "optimization_options": off}},
        {"cls": "kFlowDecompCycles", "name": "two_cycle", "edges": [("s", "a", 1), ("a", "b", 2), ("b", "a", 1), ("b", "t", 1)], "kwargs": {"k": 1, "weight_type": "int"}},
    ]
    if tier != "quick":
        e1b += [
            {"cls": "kFlowDecomp", "name": "multi_src_sink", "edges": [("a", "c", 2), ("b", "c", 1), ("c", "d", 1), ("c", "e", 2)], "kwargs": {"k": 2, "weight_type": "int", "optimization_options": off}},
            {"cls": "kFlowDecomp", "name": "diamond_shortcut", "edges": [("a", "b", 1), ("a", "c", 2), ("b", "d", 1), ("c", "d", 2), ("a", "d", 3)], "kwargs": {"k": 3, "weight_type": "int", "optimization_options": off}},
            {"cls": "kFlowDecompCycles", "name": "self_loop", "edges": [("s", "a", 1), ("a", "a", 2), ("a", "t", 1)], "kwargs": {"k": 1, "weight_type": "int"}},
            {"cls": "kFlowDecompCycles", "name": "two_cycle_k2", "edges": [("s", "a", 2), ("a", "b", 3), ("b", "a", 1), ("b", "t", 2)], "kwargs": {"k": 2, "weight_type": "int", "optimization_options": {"optimize_with_safe_sequences": False}}},
            {"cls": "kFlowDecompCycles", "name": "loop_and_cycle", "edges": [("s", "a", 1), ("a", "b", 2), ("b", "a", 1), ("b", "b", 1), ("b", "t", 1)], "kwargs": {"k": 1, "weight_type": "int"}},
        ]
    tasks = [{"kind": "e1b", "starts": [], "ends": [], "ignored": [], "timeout": 110 if tier == "quick" else 900, **t} for t in e1b] + tasks
    for i, t in enumerate(tasks):
        t["tid"] = i
    return tasks


# --------------------------------------------------------------------------- plain explanation checker
def explanation_problems(task, G, sol):
    key = c01._sol_key(task["cls"])
    wt = task["kwargs"].get("weight_type", "float" if "Cycles" not in task["cls"] else "int")
    if "weight_type" not in task["kwargs"]:
        wt = "int" if task["cls"] == "MinFlowDecompCycles" else "float"
    routes, weights = sol[key], sol["weights"]
    pr = []
    if weights is None or len(weights) != len(routes):
        return [f"weights {weights!r} do not match {len(routes)} routes"]
    for w in weights:
        if wt == "int" and not (isinstance(w, int) and not isinstance(w, bool)):
            pr.append(f"weight {w!r} is not an int although weight_type=int")
        if wt == "float" and not isinstance(w, float):
            pr.append(f"weight {w!r} is {type(w).__name__} although weight_type=float")
        if w < 0:
            pr.append(f"negative weight {w!r}")
    delta = 0 if wt == "int" else FLOAT_DELTA * max(1, len(routes))
    attr = "flow"
    if task.get("node_mode"):
        exp = checkers.node_explained(list(G.nodes()), routes, weights)
        for v in G.nodes():
            if attr in G.nodes[v] and v not in task["ignored"]:
                if abs(exp[v] - Fraction(G.nodes[v][attr])) > delta:
                    pr.append(f"node {v}: flow {G.nodes[v][attr]} but paths explain {float(exp[v])}")
    else:
        exp, bad = checkers.explained(list(G.edges()), routes, weights)
        if bad:
            pr.append(f"route uses non-edge {bad[0]}")
        ign = {tuple(e) for e in task["ignored"]}
        for (u, v) in G.edges():
            if (u, v) in ign or attr not in G[u][v]:
                continue
            if abs(exp[(u, v)] - Fraction(G[u][v][attr])) > delta:
                pr.append(f"edge ({u},{v}): flow {G[u][v][attr]} but routes explain {float(exp[(u, v)])}")
    return pr


def _lp_flow_terms(enc, inner, cols, wcols):
    """for every non-ignored internal edge: (edge, flow, z3 term of the flow explained by the decoded layers)"""
    out = []
    given = getattr(inner, "solution_weights_superset", None)
    for (u, v, data) in inner.G.edges(data=True):
        if (u, v) in inner.edges_to_ignore:
            continue
        f = data[inner.flow_attr]
        terms = []
        for i in range(inner.k):
            x = enc.xs[cols[(u, v, i)]]
            w = smt.q(given[i]) if given is not None else enc.xs[wcols[i]]
            lp = enc.lp
            ub = lp.ub[cols[(u, v, i)]]
            ub = int(ub) if ub is not None else 1
            if ub <= 1:
                terms.append(z3.If(x == 1, w, 0))
            else:
                terms.append(z3.Sum([z3.If(x == c, c * w, 0) for c in range(1, ub + 1)]))
        out.append(((u, v), f, z3.Sum(terms)))
    return out


def _e1b_task(task):
    from .. import e1b, xh
    res = new_result()
    res["evaluations"] = 1
    cls = task["cls"]
    res["functions"] = [f"{cls}.get_solution (traced by CrossHair)", "SolverWrapper.get_values", "get_solution_walks/_reconstruct_eulerian_walk" if cls in models.CYCLIC else "get_solution_paths"]
    t = {k: v for k, v in task.items() if k in ("cls", "edges", "kwargs")}
    out, cpu = xh.run_module(e1b.source(t, True), f"c02_e1b_{task['tid']}", per_condition_timeout=task["timeout"])
    res["solver_s"] += cpu
    v = out.get("check_decode", {"verdict": "error", "message": "no output"})
    tw = out.get("twin_reach", {"verdict": "error", "message": ""})
    res["obligations"] += 1
    res["queries"] += 2
    res["nontrivial"] += 1
    res["samples"].append({"obligation": "[E1b] CrossHair: for every integer assignment satisfying the captured LP, the real get_solution() returns k source-to-sink routes of the caller's graph whose weights explain the flow",
                           "instance": {"cls": cls, "graph": task["name"], "edges": task["edges"], "kwargs": task["kwargs"]}, "verdict": v["verdict"], "reachability_twin": tw["verdict"], "cpu_s": round(cpu, 1)})
    if v["verdict"] == "confirmed" and tw["verdict"] == "counterexample":
        res["discharged"] += 1
    elif v["verdict"] == "counterexample":
        call = xh.parse_call(v["message"])
        res["violations"].append({"signature": f"{cls}:E1b-decode-of-legal-answer-wrong", "summary": f"{task['name']}: {v['message'][:200]}", "replay": {"kind": "e1b", "task": task, "call": call}})
    elif v["verdict"] == "error" or tw["verdict"] == "error":
        res["harness_errors"].append(f"crosshair failed on E1b {task['name']}: {v['message'][-600:]}")
    else:
        res["inconclusive"] += 1
        res["extra"]["e1b_inconclusive"] = [f"{task['name']}:{v['verdict']}/{tw['verdict']}"]
    return res


def run_task(task):
    if task.get("kind") == "e1b":
        return _e1b_task(task)
    res = new_result()
    cls = task["cls"]
    cyc = cls in models.CYCLIC
    res["functions"] = [f"{cls}.__init__/solve/get_solution",
                        "kFlowDecompCycles._encode_flow_decomposition" if cyc else "kFlowDecomp._encode_flow_decomposition(_with_given_weights)/_get_solution_with_greedy",
                        "SolverWrapper.add_binary_continuous_product_constraint/add_integer_continuous_product_constraint",
                        "AbstractWalkModelDiGraph.get_solution_walks" if cyc else "AbstractPathModelDAG.get_solution_paths"]
    res["evaluations"] = 1
    try:
        m, G, ok, snaps = models.build_and_solve(task)
    except Exception as e:
        res["extra"]["raised_instead_of_solving"] = 1
        res["extra"]["raised_kinds"] = [f"{cls}:{type(e).__name__}"]
        return res
    desc = {"cls": cls, "graph": task["name"], "edges": task["edges"], "node_flow": task.get("node_flow"), "kwargs": task["kwargs"]}
    if not ok:
        res["extra"]["unsolved_instances"] = 1
        return res
    sol = m.get_solution()
    if sol is None:
        sol = m._solution
    # honest output (this is also the verdict for the greedy route, which involves no solver)
    res["obligations"] += 1
    pr = explanation_problems(task, G, sol)
    if pr:
        res["violations"].append({"signature": f"{cls}:honest-output:{_cls(pr)}", "summary": f"{task['name']}: {pr[0]}",
                                  "replay": {"kind": "honest", "task": task}})
    else:
        res["discharged"] += 1
    inner = c01._inner(task, m)
    if inner is None or not snaps or getattr(inner, "external_solution_paths", None) is not None or not hasattr(inner, "solver"):
        res["extra"]["no_lp_instances (greedy/external)"] = 1
        return res
    lp = snaps[-1]
    if lp.ncol != inner.solver.solver.numVariables:
        raise HarnessError("last snapshot does not belong to the accepted model")
    if models.check_honest_against_lp(lp):
        raise HarnessError("translator validation failed (honest answer violates translated LP)")
    is_int = inner.weight_type is int
    # legal tolerance answers: integer columns of HiGHS's answer moved by 1e-11 must decode to the same explanation
    if lp.honest_vals is not None and is_int:
        for direction in (-1, +1):
            tv = [(round(v) + direction * 1e-11 if (lp.is_int[j] and (direction > 0 or round(v) >= 1)) else v) for j, v in enumerate(lp.honest_vals)]
            res["obligations"] += 1
            res["extra"]["traces_validated_against_impl"] = res["extra"].get("traces_validated_against_impl", 0) + 1
            try:
                pr = _inner_explanation_problems(task, m, inner, c01._inject_and_decode(inner, tv))
            except Exception as e:
                pr = [f"decode raised {type(e).__name__}: {e}"]
            if pr:
                res["violations"].append({"signature": f"{cls}:tolerance-answer:{_cls(pr)}", "summary": f"{task['name']}: integer columns at v{'-' if direction < 0 else '+'}1e-11: {pr[0]}",
                                          "replay": {"kind": "inject", "task": task, "values": [repr(v) for v in tv]}})
            else:
                res["discharged"] += 1
    cols = models.edge_cols(inner)
    wcols = models.weight_cols(inner)
    if wcols is None and getattr(inner, "solution_weights_superset", None) is None:
        raise HarnessError("cannot locate weight columns")
    res["nontrivial"] += 1 if (inner.k >= 2 and lp.ncol > 10) else 0
    for reading, eps in (("EXACT", 0),) + ((("TOL", Fraction(lp.tol)),) if not is_int else ()):
        enc = smt.Enc(lp, eps=eps)
        s = enc.solver(60000)
        s.add(c01._optimality(enc, lp))
        terms = _lp_flow_terms(enc, inner, cols, wcols)
        if reading == "EXACT":
            viol = [t != smt.q(f) for (_e, f, t) in terms]
        else:
            viol = [z3.Or(t - smt.q(f) > smt.q(FLOAT_DELTA), smt.q(f) - t > smt.q(FLOAT_DELTA)) for (_e, f, t) in terms]
        if cyc:
            for i in range(inner.k):
                xi = layers.x_of(enc, cols, inner, i)
                viol.append(layers.walk_layer_not_walk(xi, inner, bool(getattr(inner, "allow_empty_walks", False)), f"{reading}{i}", connectivity=True))
        res["obligations"] += 1
        r = smt.check(s, z3.Or(viol))
        res["samples"].append({"obligation": f"[{reading}] exists optimal LP answer whose decoded weights x traversals differ from the flow on a non-ignored edge"
                               + (" or whose layer is not one connected walk" if cyc else ""), "instance": desc, "lp_cols": lp.ncol, "lp_rows": lp.nrow, "verdict": r})
        if r == "unsat":
            res["discharged"] += 1
        elif r == "unknown":
            res["inconclusive"] += 1
        else:
            vals = enc.values(s.model())
            res["violations"].append({"signature": f"{cls}:lp-admits-wrong-explanation[{reading}]",
                                      "summary": f"{task['name']}: a legal solver answer does not explain the flow",
                                      "replay": {"kind": "inject", "task": task, "values": [str(v) for v in vals]}})
            return res
        if reading != "EXACT":
            continue
        # decode of solver-chosen answers different from HiGHS's own
        for attempt in range(2):
            extra = []
            if lp.honest_vals is not None and attempt == 0:
                hv = lp.honest_vals
                diff = [enc.xs[cols[key]] != int(round(hv[cols[key]])) for key in cols]
                extra = [z3.Or(diff)]
            elif attempt == 1 and wcols:
                extra = [enc.xs[wcols[0]] >= 1] if is_int else [enc.xs[wcols[0]] > 0]
            res["obligations"] += 1
            r = smt.check(s, *extra)
            if r != "sat":
                res["discharged" if r == "unsat" else "inconclusive"] += 1
                continue
            vals = enc.values(s.model())
            fvals = [float(v) for v in vals]
            # the same legal answer delivered by a SECOND real solve() on the already solved object (no cache is cleared by the
            # harness): what get_solution() then returns must explain the flow as well
            if attempt == 0 and inner is m and hasattr(inner, "solve"):
                res["obligations"] += 1
                try:
                    with hx.capture(lambda idx, lp_, h, fv=fvals: {"status": "kOptimal", "values": fv, "skip_native": True}):
                        ok_again = inner.solve()
                    sol3 = inner.get_solution() if ok_again else None
                    pr3 = _inner_explanation_problems(task, m, inner, sol3) if sol3 is not None else ["second solve() with an optimal answer returned False"]
                except Exception as e:
                    pr3 = [f"second solve()/get_solution() raised {type(e).__name__}: {e}"]
                res["extra"]["traces_validated_against_impl"] = res["extra"].get("traces_validated_against_impl", 0) + 1
                if pr3:
                    res["violations"].append({"signature": f"{cls}:re-solve-with-another-optimum:{_cls(pr3)}", "summary": f"{task['name']}: {pr3[0]}",
                                              "replay": {"kind": "resolve", "task": task, "values": [str(v) for v in vals]}})
                else:
                    res["discharged"] += 1
            sol2 = c01._inject_and_decode(inner, fvals)
            res["extra"]["traces_validated_against_impl"] = res["extra"].get("traces_validated_against_impl", 0) + 1
            pr = _inner_explanation_problems(task, m, inner, sol2)
            if pr:
                res["violations"].append({"signature": f"{cls}:decode:{_cls(pr)}", "summary": f"{task['name']}: {pr[0]}",
                                          "replay": {"kind": "inject", "task": task, "values": [str(v) for v in vals]}})
            else:
                res["discharged"] += 1

    return res


def _inner_explanation_problems(task, m, inner, sol):
    """flow explanation of a decoded inner-model solution, in the inner model's own (internal) graph"""
    key = c01._sol_key(task["cls"])
    routes = sol.get("_paths_internal", sol.get("_walks_internal", sol[key]))
    weights = sol["weights"]
    pr = []
    is_int = inner.weight_type is int
    for w in weights:
        if is_int and not (isinstance(w, int) and not isinstance(w, bool)):
            pr.append(f"weight {w!r} is not an int although weight_type=int")
        if not is_int and not isinstance(w, float):
            pr.append(f"weight {w!r} is {type(w).__name__} although weight_type=float")
    H = inner.G
    edges = [(u, v) for (u, v) in H.edges() if u != H.source and v != H.sink]
    exp, bad = checkers.explained(edges, routes, weights)
    if bad:
        pr.append(f"route uses non-edge {bad[0]}")
    delta = 0 if is_int else FLOAT_DELTA * max(1, len(routes))
    for (u, v) in edges:
        if (u, v) in inner.edges_to_ignore:
            continue
        f = H[u][v][inner.flow_attr]
        if abs(exp[(u, v)] - Fraction(f)) > delta:
            pr.append(f"edge ({u},{v}): flow {f} but decoded routes explain {float(exp[(u, v)])}")
    return pr


def _cls(pr):
    p = pr[0]
    if "is not an int" in p or "although weight_type" in p:
        return "weight-type"
    if "explain" in p:
        return "flow-mismatch"
    if "non-edge" in p:
        return "non-edge"
    return "shape"


def replay(data):
    from fractions import Fraction as Fr
    task = data["task"]
    if data.get("kind") == "e1b":
        from .. import e1b, xh
        if not data.get("call"):
            return False
        fn, pos, kw = data["call"]
        t = {k: v for k, v in task.items() if k in ("cls", "edges", "kwargs")}
        r = xh.call_concretely(e1b.source(t, True), "c02_e1b_replay", fn, pos, kw)
        print(f"  replay: {fn}(...) -> {r}")
        return r is False
    m, G, ok, snaps = models.build_and_solve(task)
    if data["kind"] == "honest":
        if not ok:
            return False
        sol = m.get_solution() or m._solution
        pr = explanation_problems(task, G, sol)
        if pr:
            print("  replay:", pr[0])
        return bool(pr)
    inner = c01._inner(task, m)
    lp = snaps[-1]
    vals = [float(Fr(v)) if "/" in v else float(v) for v in data["values"]]
    if lp.violations(vals, max(1e-9, lp.tol) * 4):
        print("  replay: injected answer is not feasible for the current LP")
        return False
    if data["kind"] == "resolve":
        try:
            with hx.capture(lambda idx, lp_, h, fv=vals: {"status": "kOptimal", "values": fv, "skip_native": True}):
                ok_again = inner.solve()
            sol = inner.get_solution() if ok_again else None
        except Exception as e:
            print("  replay: second solve raised", type(e).__name__, e)
            return True
        if sol is None:
            print("  replay: second solve() with an optimal answer returned False")
            return True
        pr = _inner_explanation_problems(task, m, inner, sol)
        if pr:
            print("  replay (second solve on the same object):", pr[0])
        return bool(pr)
    try:
        sol = c01._inject_and_decode(inner, vals)
    except Exception as e:
        print("  replay: decode raised", type(e).__name__, e)
        return True
    pr = _inner_explanation_problems(task, m, inner, sol)
    if pr:
        print("  replay:", pr[0])
    return bool(pr)


RULE = ("one case = (flow-decomposition class, graph, conserving flow, options); non-trivial = accepted LP has >= 2 layers and > 10 columns; "
        "obligations: z3 over all optimal answers of the captured LP (weights x traversals == flow written with ite on decoded x and w, not the model's pi "
        "variables; EXACT reading for ints, additionally TOL(eps=solver tolerance) for floats; connectivity cut for walk layers), plus decode of solver-chosen "
        "answers through the real get_solution(), plus plain evaluation of the honest output (the only verdict for the greedy route)")
ASSUMPTIONS = [
    "HiGHS answers kOptimal only with assignments feasible for the captured LP (exact on integer columns; float rows within the model tolerance in the TOL reading)",
    "float claims: |explained - flow| <= 1e-6 per path with eps = 1e-9",
    "topology, k, options and flow values enumerated; LP columns symbolic",
    "greedy (max-bottleneck) route is evaluated concretely per enumerated flow, not solver-decided",
    "walk reconstruction from multiplicities is C14",
    "E1b: CrossHair executes the real get_solution() with all LP columns as symbolic ints and the captured LP as precondition (2 instances in quick, 7 in thorough; integer models with <= ~60 columns)",
]


def main(tier, seed):
    t0 = time.time()
    tasks = gen_tasks(tier, seed)
    acc = core.run_tasks(run_task, tasks, deadline_s=150 if tier == "quick" else 1500)
    bounds = {"dag_nodes_max": 4 if tier == "quick" else 5, "digraph_inner_nodes_max": 3, "k_max": 4, "flow_max": 15, "walk_flow_max": 6, "z3_timeout_s": 60}
    return core.finish(PID, tier, seed, LEVEL, acc, t0, RULE, ASSUMPTIONS, bounds, replay)
