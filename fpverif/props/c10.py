"""C10 -- constraints, ignored elements and extra start/end nodes behave as documented."""
from __future__ import annotations

import math
import random
import time
from fractions import Fraction

import networkx as nx
import z3

from .. import core, families as F, hx, instances as I, layers, models, smt, spec
from ..core import HarnessError, new_result
from . import c01, c07

PID = "C10"
LEVEL = "translation_validation"


def gen_tasks(tier, seed):
    rng = random.Random(seed + 10)
    tasks = []
    for name, es in I.dag_graphs(tier, rng, quick_n=8, thorough_n5=40):
        G = nx.DiGraph(es)
        routes = F.dag_routes(G)
        inner = [v for v in G.nodes() if G.in_degree(v) > 0 and G.out_degree(v) > 0]
        sps = I.contiguous_subpaths(es, 3)
        arbw = I.arbitrary_weights(es, rng, (0, 1, 2, 3))
        arb = I.with_flow(es, arbw)
        lens = {e: rng.choice((1, 2)) for e in es}
        arb_len = [(u, v, arbw[(u, v)], lens[(u, v)]) for (u, v) in es]
        fl = I.dag_flow(es, rng)
        base = {"name": name, "cyc": False, "starts": [], "ends": [], "ignored": [], "scaling": None, "node_mode": False, "allow_empty": False}
        k = min(3, len(routes))
        # constraint families: contiguous, non-contiguous pair, duplicates, overlapping
        cands = [[rng.choice(sps)], [rng.choice(sps), rng.choice(sps)]]
        c0 = rng.choice(sps)
        cands.append([c0, c0])
        r = rng.choice(routes)
        res_ = list(zip(r[:-1], r[1:]))
        if len(res_) >= 3:
            cands.append([[res_[0], res_[-1]]])           # non contiguous pair on one route
        for cs in cands:
            cs = [[list(e) for e in c] for c in cs]
            for cov in (1.0, 0.5):
                for kind, cls in (("lae", "kLeastAbsErrors"), ("mpe", "kMinPathError")):
                    tasks.append({**base, "kind": kind, "cls": cls, "edges": arb, "constraints": cs, "coverage": cov,
                                  "kwargs": {"k": k, "weight_type": "int", "subpath_constraints": cs, "subpath_constraints_coverage": cov}})
                tasks.append({**base, "kind": "cover", "cls": "kPathCover", "edges": es, "constraints": cs, "coverage": cov,
                              "kwargs": {"k": k, "subpath_constraints": cs, "subpath_constraints_coverage": cov}})
                if fl:
                    tasks.append({**base, "kind": "fd", "cls": "kFlowDecomp", "edges": I.with_flow(es, fl), "constraints": cs, "coverage": cov,
                                  "kwargs": {"k": k, "weight_type": "int", "subpath_constraints": cs, "subpath_constraints_coverage": cov, "optimization_options": {"optimize_with_greedy": False}}})
                    tasks.append({**base, "kind": "fd", "cls": "kFlowDecomp", "edges": I.with_flow(es, fl), "constraints": cs, "coverage": cov, "greedy": True,
                                  "kwargs": {"k": k + 1, "weight_type": "int", "subpath_constraints": cs, "subpath_constraints_coverage": cov}})
            # edge lengths present (length_attr) but the coverage is the plain edge fraction: lengths must play no role --
            # also in the greedy shortcut's own constraint test (one long edge inside the constraint)
            if fl and len(cs) == 1 and len(cs[0]) >= 2:
                for pos in range(len(cs[0])):
                    long_e = tuple(cs[0][pos])
                    fl_len = [(u, v, fl[(u, v)], 5 if (u, v) == long_e else 1) for (u, v) in es]
                    tasks.append({**base, "kind": "fd", "cls": "kFlowDecomp", "edges": fl_len, "constraints": cs, "coverage": 1.0, "greedy": True,
                                  "kwargs": {"k": k + 1, "weight_type": "int", "subpath_constraints": cs, "subpath_constraints_coverage": 1.0, "length_attr": "length"}})
            # length coverage
            tasks.append({**base, "kind": "lae", "cls": "kLeastAbsErrors", "edges": arb_len, "constraints": cs, "cov_len": 0.6,
                          "kwargs": {"k": k, "weight_type": "int", "subpath_constraints": cs, "subpath_constraints_coverage_length": 0.6, "length_attr": "length"}})
        # length coverage together with safety used as constraints (explicit option, or implied by given weights): every 3-edge
        # constraint in turn, the first edge long (so that bridges towards the source/sink are long compared with the rest)
        for c3 in [c for c in sps if len(c) == 3][: (3 if tier == "quick" else 10)]:
            cs3 = [[list(e) for e in c3]]
            lens3 = [(u, v, arbw[(u, v)], 1 if (u, v) in [tuple(e) for e in c3] else 4) for (u, v) in es]
            for kind, cls in (("lae", "kLeastAbsErrors"), ("mpe", "kMinPathError")):
                tasks.append({**base, "kind": kind, "cls": cls, "edges": lens3, "constraints": cs3, "cov_len": 0.4,
                              "kwargs": {"k": k, "weight_type": "int", "subpath_constraints": cs3, "subpath_constraints_coverage_length": 0.4, "length_attr": "length",
                                         "optimization_options": {"optimize_with_safety_as_subpath_constraints": True}}})
                tasks.append({**base, "kind": kind, "cls": cls, "edges": lens3, "constraints": cs3, "cov_len": 0.4, "allow_empty": True, "superset": [1, 2, 3],
                              "kwargs": {"k": k, "weight_type": "int", "subpath_constraints": cs3, "subpath_constraints_coverage_length": 0.4, "length_attr": "length",
                                         "solution_weights_superset": [1, 2, 3]}})
        # ... and the structured variant: the constraint's last edge and everything behind it carries no flow and is long,
        # its first edge alone reaches the length fraction; k = 1
        for c2 in [c for c in sps if len(c) == 2][: (4 if tier == "quick" else 12)]:
            (a_, b_), (_b, c_) = c2
            behind = {c_} | nx.descendants(G, c_)
            if b_ in behind:
                continue
            fl2 = [(u, v, 0 if (u in behind or (u, v) == (b_, c_)) else 5, 1 if (u, v) in c2 else 10) for (u, v) in es]
            cs2 = [[list(e) for e in c2]]
            for kind, cls in (("lae", "kLeastAbsErrors"), ("mpe", "kMinPathError")):
                for extra in ({"optimization_options": {"optimize_with_safety_as_subpath_constraints": True}}, {"solution_weights_superset": [5]}):
                    t_ = {**base, "kind": kind, "cls": cls, "edges": fl2, "constraints": cs2, "cov_len": 0.5,
                          "kwargs": {"k": 1, "weight_type": "int", "subpath_constraints": cs2, "subpath_constraints_coverage_length": 0.5, "length_attr": "length", **extra}}
                    if "solution_weights_superset" in extra:
                        t_.update({"allow_empty": True, "superset": [5]})
                    tasks.append(t_)
        # greedy shortcut against every 2-edge constraint (not sampled)
        if fl and name in F.CURATED_DAGS:
            for c2 in [c for c in sps if len(c) == 2][:8]:
                cs2 = [[list(e) for e in c2]]
                tasks.append({**base, "kind": "fd", "cls": "kFlowDecomp", "edges": I.with_flow(es, fl), "constraints": cs2, "coverage": 1.0, "greedy": True,
                              "kwargs": {"k": k + 1, "weight_type": "int", "subpath_constraints": cs2, "subpath_constraints_coverage": 1.0}})
        # frame: additional starts/ends enlarge the admissible routes by exactly those starting/ending there
        if inner:
            v, w = rng.choice(inner), rng.choice(inner)
            for kind, cls in (("lae", "kLeastAbsErrors"), ("mpe", "kMinPathError")):
                tasks.append({**base, "kind": kind, "cls": cls, "edges": arb, "starts": [v], "ends": [], "kwargs": {"k": k, "weight_type": "int", "additional_starts": [v]}})
                tasks.append({**base, "kind": kind, "cls": cls, "edges": arb, "starts": [], "ends": [w], "kwargs": {"k": k, "weight_type": "int", "additional_ends": [w]}})
            tasks.append({**base, "kind": "cover", "cls": "kPathCover", "edges": es, "starts": [v], "ends": [w], "kwargs": {"k": max(1, k - 1), "additional_starts": [v], "additional_ends": [w]}})
            # the same inner node declared as additional start AND additional end (every inner node in turn)
            for vb in inner:
                for kind, cls in (("lae", "kLeastAbsErrors"), ("mpe", "kMinPathError")):
                    tasks.append({**base, "kind": kind, "cls": cls, "edges": arb, "starts": [vb], "ends": [vb], "kwargs": {"k": k, "weight_type": "int", "additional_starts": [vb], "additional_ends": [vb]}})
                    # structured: everything before vb heavy, everything after light (a route ending at vb is needed for error 0)
                    before = nx.ancestors(G, vb)
                    sw_ = [(u, v, 5 if (v == vb or v in before) else 3) for (u, v) in es]
                    tasks.append({**base, "kind": kind, "cls": cls, "edges": sw_, "starts": [vb], "ends": [vb], "kwargs": {"k": 2, "weight_type": "int", "additional_starts": [vb], "additional_ends": [vb]}})
        # frame: ignoring / scale 0 removes the element's influence and nothing else
        if len(es) > 1:
            e0, e1 = rng.sample(es, 2)
            for kind, cls in (("lae", "kLeastAbsErrors"), ("mpe", "kMinPathError")):
                tasks.append({**base, "kind": kind, "cls": cls, "edges": arb, "ignored": [list(e0), list(e1)], "kwargs": {"k": k, "weight_type": "int", "elements_to_ignore": [list(e0), list(e1)]}})
                tasks.append({**base, "kind": kind, "cls": cls, "edges": arb, "scaling": [[list(e0), 0], [list(e1), 0.5]], "kwargs": {"k": k, "weight_type": "int", "error_scaling": [[list(e0), 0], [list(e1), 0.5]]}})
    hb = [("s", "u", 5), ("u", "v", 3), ("u", "x", 2), ("x", "v", 2), ("v", "w", 2), ("v", "z", 3), ("w", "t", 2), ("z", "t", 3)]
    for cs_h in ([[["u", "v"], ["v", "w"]]], [[["u", "v"]]], [[["x", "v"], ["v", "z"]]]):
        for kk in (2, 3):
            tasks.append({"name": "greedy_bypass", "cyc": False, "starts": [], "ends": [], "ignored": [], "scaling": None, "node_mode": False, "allow_empty": False,
                          "kind": "fd", "cls": "kFlowDecomp", "edges": hb, "constraints": cs_h, "coverage": 1.0, "greedy": True,
                          "kwargs": {"k": kk, "weight_type": "int", "subpath_constraints": cs_h, "subpath_constraints_coverage": 1.0}})
    for name, es in I.digraphs(tier, rng, quick_n=6, thorough_n=40):
        arb = I.with_flow(es, I.arbitrary_weights(es, rng, (0, 1, 2)))
        base = {"name": name, "cyc": True, "starts": [], "ends": [], "ignored": [], "scaling": None, "node_mode": False, "allow_empty": False}
        if len(es) < 2:
            continue
        cs = [[list(e) for e in rng.sample(es, 2)]]
        e_dup = rng.choice(es)
        cs_dup = [[list(e_dup), list(rng.choice(es)), list(e_dup)]]          # the same edge listed twice
        for cov in (1.0, 0.5):
            tasks.append({**base, "kind": "cover", "cls": "kPathCoverCycles", "edges": es, "constraints": cs_dup, "coverage": cov,
                          "kwargs": {"k": 2, "subset_constraints": cs_dup, "subset_constraints_coverage": cov}})
            tasks.append({**base, "kind": "lae", "cls": "kLeastAbsErrorsCycles", "edges": arb, "constraints": cs_dup, "coverage": cov,
                          "kwargs": {"k": 2, "weight_type": "int", "subset_constraints": cs_dup, "subset_constraints_coverage": cov}})
            tasks.append({**base, "kind": "lae", "cls": "kLeastAbsErrorsCycles", "edges": arb, "constraints": cs, "coverage": cov,
                          "kwargs": {"k": 2, "weight_type": "int", "subset_constraints": cs, "subset_constraints_coverage": cov}})
            tasks.append({**base, "kind": "cover", "cls": "kPathCoverCycles", "edges": es, "constraints": cs, "coverage": cov,
                          "kwargs": {"k": 2, "subset_constraints": cs, "subset_constraints_coverage": cov}})
        # slack model with subset constraints; a constraint with coverage < 1 that lists an ignored edge must not force that edge
        for cov in (1.0, 0.5):
            tasks.append({**base, "kind": "mpe", "cls": "kMinPathErrorCycles", "edges": arb, "constraints": cs, "coverage": cov,
                          "kwargs": {"k": 2, "weight_type": "int", "subset_constraints": cs, "subset_constraints_coverage": cov}})
        for e_ign in (es if tier != "quick" else rng.sample(es, min(3, len(es)))):
            others = [e for e in es if e != e_ign]
            if not others:
                continue
            cs_i = [[list(e_ign), list(rng.choice(others))]]
            for cls, kind in (("kMinPathErrorCycles", "mpe"), ("kLeastAbsErrorsCycles", "lae")):
                tasks.append({**base, "kind": kind, "cls": cls, "edges": arb, "constraints": cs_i, "coverage": 0.5, "ignored": [list(e_ign)],
                              "kwargs": {"k": 1, "weight_type": "int", "subset_constraints": cs_i, "subset_constraints_coverage": 0.5, "elements_to_ignore": [list(e_ign)]}})
    tasks = [t for t in tasks if t["kind"] in ("cover", "fd") or any(e[2] for e in t["edges"] if (e[0], e[1]) not in {tuple(x) for x in t["ignored"]})]
    for i, t in enumerate(tasks):
        t["tid"] = i
    return tasks


def containment(task, m, lp, res, o_h=None):
    """every (optimal) LP answer has, for each constraint, one layer containing >= coverage * |c| (length-weighted) of its edges"""
    cs = task.get("constraints")
    if not cs or not hasattr(m, "solver"):
        return
    enc = smt.Enc(lp)
    s = enc.solver(90000)
    if o_h is not None and any(c != 0 for c in lp.cost):
        s.add(enc.min_obj <= smt.q(o_h + Fraction(1, 10 ** 6)))
    cols = models.edge_cols(m)
    viol = []
    for c in cs:
        ces = [tuple(e) for e in c]
        if task["cyc"]:
            ces = list(dict.fromkeys(ces))
            need = math.ceil(len(ces) * task.get("coverage", 1.0) - 1e-9)
            per_layer = [z3.Sum([z3.If(enc.xs[cols[(u, v, i)]] >= 1, 1, 0) for (u, v) in ces]) < need for i in range(m.k)]
        elif task.get("cov_len") is not None:
            ln = {(e[0], e[1]): (e[3] if len(e) > 3 and e[3] is not None else 1) for e in task["edges"]}
            total = sum(ln[e] for e in ces)
            need = total * task["cov_len"]
            per_layer = [z3.Sum([ln[(u, v)] * enc.xs[cols[(u, v, i)]] for (u, v) in ces]) < smt.q(Fraction(need).limit_denominator(10 ** 9)) - smt.q(Fraction(1, 10 ** 9)) for i in range(m.k)]
        else:
            need = len(ces) * task.get("coverage", 1.0)
            per_layer = [z3.Sum([enc.xs[cols[(u, v, i)]] for (u, v) in ces]) < math.ceil(need - 1e-9) for i in range(m.k)]
        viol.append(z3.And(per_layer))
    res["obligations"] += 1
    r = smt.check(s, z3.Or(viol))
    if len(res["samples"]) < 2:
        res["samples"].append({"obligation": "exists optimal LP answer in which some constraint is contained to the requested fraction in NO layer (must be unsat)", "cls": task["cls"], "graph": task["name"],
                               "constraints": cs, "coverage": task.get("coverage", task.get("cov_len")), "verdict": r})
    if r == "unsat":
        res["discharged"] += 1
    elif r == "unknown":
        res["inconclusive"] += 1
    else:
        vals = enc.values(s.model())
        res["violations"].append({"signature": f"{task['cls']}:lp-admits-answer-violating-constraint", "summary": f"{task['name']}: a legal answer contains no layer covering {cs} to {task.get('coverage', task.get('cov_len'))}",
                                  "replay": {"kind": "inject", "task": task, "values": [str(x) for x in vals]}})


def returned_containment_problems(task, routes):
    pr = []
    for c in task.get("constraints") or []:
        ces = [tuple(e) for e in c]
        best = 0
        if task.get("cov_len") is not None:
            ln = {(e[0], e[1]): (e[3] if len(e) > 3 and e[3] is not None else 1) for e in task["edges"]}
            need = sum(ln[e] for e in ces) * task["cov_len"] - 1e-9
            for r in routes:
                res_ = set(zip(r[:-1], r[1:]))
                best = max(best, sum(ln[e] for e in ces if e in res_))
        else:
            if task["cyc"]:
                ces = list(dict.fromkeys(ces))
            need = len(ces) * task.get("coverage", 1.0) - 1e-9
            for r in routes:
                res_ = set(zip(r[:-1], r[1:]))
                best = max(best, sum(1 for e in ces if e in res_))
        if best < need:
            pr.append(f"constraint {c}: best route contains {best}, needs {need}")
    return pr


def run_task(task):
    kind = task["kind"]
    if kind in ("lae", "mpe"):
        res = c07.run_task(task)
        # containment over all optimal answers + on the returned routes
        try:
            m, G, ok, snaps = models.build_and_solve(task)
        except Exception:
            return res
        if ok and task.get("constraints"):
            o_h = Fraction(snaps[-1].honest_obj).limit_denominator(10 ** 6)
            containment(task, m, snaps[-1], res, o_h)
            key = "walks" if task["cyc"] else "paths"
            res["obligations"] += 1
            pr = returned_containment_problems(task, m.get_solution()[key])
            if pr:
                res["violations"].append({"signature": f"{task['cls']}:returned-solution-violates-constraint", "summary": f"{task['name']}: {pr[0]}", "replay": {"kind": "honest_c", "task": task}})
            else:
                res["discharged"] += 1
        return res
    # feasibility models (flow decomposition / cover): model solved <=> spec with constraints satisfiable
    res = new_result()
    cls = task["cls"]
    res["functions"] = [f"{cls}.__init__", "AbstractPathModelDAG._encode_paths (7a/7b)" if not task["cyc"] else "AbstractWalkModelDiGraph._encode_subset_constraints", "kFlowDecomp._get_solution_with_greedy / graphutils.max_occurrence"]
    res["evaluations"] = 1
    try:
        m, G, ok, snaps = models.build_and_solve(task)
    except Exception as e:
        res["extra"]["raised_instead_of_solving"] = 1
        res["extra"]["raised_kinds"] = [f"{cls}:{type(e).__name__}"]
        return res
    t2 = dict(task)
    t2["k_resolved"] = m.k
    sp, scons, _obj = c07.build_spec(t2, G)
    s = smt.solver(90000)
    s.add(scons)
    res["obligations"] += 1
    res["extra"]["programs"] = 1
    r = smt.check(s)
    res["nontrivial"] += 1 if task.get("constraints") else 0
    res["samples"].append({"obligation": "model solved <=> k routes satisfying the problem and every constraint exist (spec)", "cls": cls, "graph": task["name"], "kwargs": task["kwargs"], "solved": ok, "spec": r})
    if r == "unknown":
        res["inconclusive"] += 1
    elif (r == "sat") == bool(ok):
        res["discharged"] += 1
    else:
        res["extra"]["disagreements_checked"] = 1
        res["violations"].append({"signature": f"{cls}:{'unsolved-although-solution-with-constraints-exists' if r == 'sat' else 'solved-although-no-solution-satisfies-constraints'}" + (":greedy" if task.get("greedy") else ""),
                                  "summary": f"{task['name']}: solved={ok}, spec {r}", "replay": {"kind": "feas", "task": task}})
    if ok:
        key = "walks" if task["cyc"] else "paths"
        sol = m.get_solution() or m._solution
        res["obligations"] += 1
        pr = returned_containment_problems(task, sol[key])
        if pr:
            res["violations"].append({"signature": f"{cls}:returned-solution-violates-constraint" + (":greedy" if getattr(m, "external_solution_paths", None) is not None else ""),
                                      "summary": f"{task['name']}: {pr[0]}", "replay": {"kind": "honest_c", "task": task}})
        else:
            res["discharged"] += 1
        if snaps and hasattr(m, "solver"):
            containment(task, m, snaps[-1], res)
    return res


def replay(data):
    task = data["task"]
    if data["kind"] in ("optimum", "honest") or (data["kind"] == "inject" and "o_h" in data):
        return c07.replay(data)
    m, G, ok, snaps = models.build_and_solve(task)
    key = "walks" if task["cyc"] else "paths"
    if data["kind"] == "honest_c":
        if not ok:
            return False
        pr = returned_containment_problems(task, (m.get_solution() or m._solution)[key])
        if pr:
            print("  replay:", pr[0])
        return bool(pr)
    if data["kind"] == "feas":
        r = run_task(task)
        hits = [v for v in r["violations"] if "solved" in v["signature"]]
        for v in hits:
            print("  replay:", v["summary"])
        return bool(hits)
    if data["kind"] == "inject":
        vals = [float(Fraction(v)) for v in data["values"]]
        if snaps[-1].violations(vals, 1e-9):
            return False
        sol = c01._inject_and_decode(m, vals)
        pr = returned_containment_problems(task, sol[key])
        if pr:
            print("  replay:", pr[0])
        return bool(pr)
    return False


RULE = ("one case = (class, graph, weights, constraint list / coverage / length coverage | ignored or zero-scaled elements | additional starts/ends); non-trivial = cases with constraints; "
        "programs = captured LPs compared with the spec restricted to constraint-satisfying solutions")
ASSUMPTIONS = c07.ASSUMPTIONS[:3] + [
    "constraint semantics: some single route contains at least coverage*|c| of the constraint's edges (distinct edges for subset constraints; length-weighted with missing lengths = 1 for length coverage)",
    "frame obligations are optimum/feasibility equalities between the captured LP and a spec in which an ignored / zero-scaled element contributes to nothing and additional starts/ends enlarge the route set by exactly the routes starting/ending there",
    "greedy route: accepted only if it meets every constraint (evaluated on the returned solution)",
]


def main(tier, seed):
    t0 = time.time()
    tasks = gen_tasks(tier, seed)
    acc = core.run_tasks(run_task, tasks, deadline_s=170 if tier == "quick" else 1800)
    bounds = {"dag_nodes_max": 4 if tier == "quick" else 5, "inner_nodes_max": 3, "k_max": 3, "coverage": [1.0, 0.5], "length_coverage": [0.6]}
    return core.finish(PID, tier, seed, LEVEL, acc, t0, RULE, ASSUMPTIONS, bounds, replay)
