"""C18 -- a model's result depends only on its own arguments; caller data is never mutated.

CrossHair enumerates *histories* (symbolic list of (class, which shared argument objects it receives)); the models are
built and solved concretely under NoTracing.  The solver's contribution is the systematic coverage of histories, not a
quantifier over data -- level: exploration.
"""
from __future__ import annotations

import inspect
import time

from .. import core, xh
from ..core import new_result

PID = "C18"
LEVEL = "exploration"

HARNESS = xh.PRELUDE + '''
from typing import List
import copy
import networkx as nx
import flowpaths as fp
from crosshair.tracers import NoTracing

CYC = {cyc!r}
HLEN = {hlen}
FIRST_MOD = {first_mod}      # -1: all histories; r: only those whose first class index is r modulo FIRST_DIV (several harnesses in parallel)
FIRST_DIV = {first_div}

def _graph():
    G = nx.DiGraph()
    if CYC:
        for (u, v, f) in [("s", "a", 2), ("a", "b", 3), ("b", "a", 1), ("b", "t", 2), ("a", "a", 1)]:
            G.add_edge(u, v, flow=f)
    else:
        for (u, v, f) in [("a", "b", 3), ("a", "c", 2), ("b", "d", 2), ("c", "d", 3), ("b", "c", 1)]:
            G.add_edge(u, v, flow=f)
    for j, v in enumerate(sorted(G.nodes())):
        G.nodes[v]["flow"] = 2 + (j % 3)          # node values too, so that node-weighted variants can share the same graph object
        G.nodes[v]["len"] = 1 + (j % 2)
    G.graph["id"] = "shared"
    return G

if CYC:
    CLASSES = [
        ("kFlowDecompCycles", dict(k=2, weight_type=int), "subset_constraints"),
        ("MinFlowDecompCycles", dict(weight_type=int), "subset_constraints"),
        ("kLeastAbsErrorsCycles", dict(k=2, weight_type=int), "subset_constraints"),
        ("kMinPathErrorCycles", dict(k=2, weight_type=int), "subset_constraints"),
        ("kPathCoverCycles", dict(k=2), "subset_constraints"),
        ("MinPathCoverCycles", dict(), "subset_constraints"),
        ("kMinPathErrorCycles+scale0", dict(k=2, weight_type=int, error_scaling=dict([(("a", "a"), 0)])), "subset_constraints"),
        ("kLeastAbsErrorsCycles+scale0", dict(k=2, weight_type=int, error_scaling=dict([(("a", "a"), 0)])), "subset_constraints"),
        ("kMinPathErrorCycles+percentile", dict(k=2, weight_type=int, elements_to_ignore_percentile=40), "subset_constraints"),
        ("kLeastAbsErrorsCycles+node", dict(k=2, weight_type=int, flow_attr_origin="node"), None),
        ("MinErrorFlow+eps", dict(weight_type=int, few_flow_values_epsilon=0.5), None),
    ]
    CONSTRAINT = [[("a", "b"), ("b", "a")]]
    IGNORE = [("a", "a")]
else:
    CLASSES = [
        ("kFlowDecomp", dict(k=3, weight_type=int), "subpath_constraints"),
        ("MinFlowDecomp", dict(weight_type=int), "subpath_constraints"),
        ("kLeastAbsErrors", dict(k=2, weight_type=int), "subpath_constraints"),
        ("kMinPathError", dict(k=2, weight_type=int), "subpath_constraints"),
        ("kPathCover", dict(k=2), "subpath_constraints"),
        ("MinPathCover", dict(), "subpath_constraints"),
        ("kLeastAbsErrors+superset", dict(k=2, weight_type=int, solution_weights_superset=[1, 2, 3]), "subpath_constraints"),
        ("kMinPathError+superset", dict(k=2, weight_type=int, solution_weights_superset=[1, 2, 3]), "subpath_constraints"),
        ("kMinPathError+scale0", dict(k=2, weight_type=int, error_scaling=dict([(("a", "c"), 0)])), "subpath_constraints"),
        ("kLeastAbsErrors+scale0", dict(k=2, weight_type=int, error_scaling=dict([(("a", "c"), 0)])), "subpath_constraints"),
        ("MinFlowDecomp+scanning", dict(weight_type=int), "subpath_constraints"),
        ("kMinPathError+node+length", dict(k=2, weight_type=int, flow_attr_origin="node", length_attr="len", path_length_ranges=[[0, 4], [5, 100]], path_length_factors=[1, 2]), None),
        ("kMinPathError+edge+length", dict(k=2, weight_type=int, length_attr="len", path_length_ranges=[[0, 3], [4, 100]], path_length_factors=[1, 2]), "subpath_constraints"),
        ("MinErrorFlow+eps", dict(weight_type=int, few_flow_values_epsilon=0.5), None),
        # caller-supplied safe paths inside the option dict, next to fully covered subpath constraints (which the model turns into further safe lists)
        ("kLeastAbsErrors+extsafe", dict(k=2, weight_type=int), "subpath_constraints"),
        ("kMinPathError+extsafe", dict(k=2, weight_type=int), "subpath_constraints"),
    ]
    CONSTRAINT = [[("a", "b"), ("b", "d")]]
    IGNORE = [("b", "c")]

def _fresh_shared():
    return {{"G": _graph(), "opts": {{"optimize_with_safe_zero_edges": True, "use_subgraph_scanning_lowerbound": True}}, "sopts": {{"threads": 2}}, "opts_ext": {{"external_safe_paths": [[("a", "b")]]}}, "constraints": copy.deepcopy(CONSTRAINT), "ignore": list(IGNORE), "ignore_empty": []}}

fp.MinFlowDecomp.subgraph_lowerbound_size = 2
fp.MinFlowDecomp.subgraph_lowerbound_shift = 1

def _snap(sh):
    G = sh["G"]
    return (sorted(G.nodes(data=True), key=str).__repr__(), sorted(G.edges(data=True), key=str).__repr__(), repr(sorted(G.graph.items())),
            repr(sh["opts"]), repr(sh["opts_ext"]), repr(sh["sopts"]), repr(sh["constraints"]), repr(sh["ignore"]), repr(sh["ignore_empty"]))

def _run(ci, share_opts, share_lists, sh):
    name, kw, ckey = CLASSES[ci]
    cls = getattr(fp, name.split("+")[0])
    kw = copy.deepcopy(kw)
    if name.endswith("+scanning") and not share_opts:
        kw["optimization_options"] = {{"use_subgraph_scanning_lowerbound": True}}
    if name.endswith("+extsafe"):
        kw["optimization_options"] = sh["opts_ext"] if share_opts else {{"external_safe_paths": [[("a", "b")]]}}
        if share_opts:
            kw["solver_options"] = sh["sopts"]
    elif share_opts and name.startswith("MinErrorFlow"):
        kw["solver_options"] = sh["sopts"]          # this class takes no optimization_options
    elif share_opts:
        kw["optimization_options"] = sh["opts"]
        kw["solver_options"] = sh["sopts"]
    if share_lists and ckey is None and "+node" in name:
        pass                                     # node-weighted variants take node names: nothing from the shared edge lists applies
    elif share_lists and ckey is None:
        kw["elements_to_ignore"] = sh["ignore"]
    elif share_lists:
        kw[ckey] = sh["constraints"]
        kw["elements_to_ignore"] = sh["ignore"] if not name.endswith("+percentile") else sh["ignore_empty"]   # the percentile rule needs an empty list
    if "PathCover" in name:
        m = cls(sh["G"], **kw)
    else:
        m = cls(sh["G"], "flow", **kw)
    ok = m.solve()
    if not ok:
        return m, (False, None, None)
    sol = m.get_solution()
    routes = sol.get("walks" if CYC else "paths", [])
    return m, (True, round(float(m.get_objective_value()), 6), len(routes))

def _one(ci, share_opts, share_lists):
    with NoTracing():
        sh = _fresh_shared()
        m, r = _run(ci, share_opts, share_lists, sh)
        return r

_BASE = {{}}
def _baseline(ci, so, sl):
    key = (ci, so, sl)
    if key not in _BASE:
        _BASE[key] = _one(ci, so, sl)
    return _BASE[key]

with NoTracing():
    pass
for _ci in range(len(CLASSES)):
    for _so in (False, True):
        for _sl in (False, True):
            _baseline(_ci, _so, _sl)

def _step(ci, so, sl, sh):
    with NoTracing():
        before = _snap(sh)
        m, r = _run(ci, so, sl, sh)
        after = _snap(sh)
        # repeated calls agree (first call included)
        rep_ok = True
        if r[0]:
            s1 = repr(m.get_solution()); o1 = m.get_objective_value()
            s2 = repr(m.get_solution()); o2 = m.get_objective_value()
            rep_ok = (s1 == s2) and (o1 == o2)
        return before == after, r, rep_ok

def history(cs: List[int], so: List[bool], sl: List[bool]) -> bool:
    """
    pre: len(cs) == HLEN and len(so) == HLEN and len(sl) == HLEN
    pre: all(0 <= c < len(CLASSES) for c in cs)
    pre: all(so[i] or not sl[i] for i in range(HLEN))
    pre: FIRST_MOD < 0 or cs[0] % FIRST_DIV == FIRST_MOD
    post: _
    """
    with NoTracing():
        sh = _fresh_shared()
    last = None
    for i in range(HLEN):
        c = cs[i]
        a = True if so[i] else False
        b = True if sl[i] else False
        # concretise the class index by branching under tracing
        ci = 0
        for j in range(len(CLASSES)):
            if c == j:
                ci = j
        unchanged, r, rep_ok = _step(ci, a, b, sh)
        if not unchanged or not rep_ok:
            return False
        if r != _baseline(ci, a, b):
            return False
    return True

history([0] * HLEN, [True] * HLEN, [True] * HLEN)
'''


def gen_tasks(tier, seed):
    tasks = [{"kind": "xh", "cyc": False, "hlen": 2, "name": f"dag-histories/first-class-{r}-mod-4", "first_mod": r, "first_div": 4} for r in range(4)] + [
             {"kind": "xh", "cyc": True, "hlen": 2, "name": "cyclic-histories/even-first", "first_mod": 0}, {"kind": "xh", "cyc": True, "hlen": 2, "name": "cyclic-histories/odd-first", "first_mod": 1},
             {"kind": "defaults"}, {"kind": "resolve"}]
    if tier != "quick":
        tasks += [{"kind": "xh", "cyc": False, "hlen": 3, "name": "dag-histories-3"}, {"kind": "xh", "cyc": True, "hlen": 3, "name": "cyclic-histories-3"}]
    for i, t in enumerate(tasks):
        t["tid"] = i
    return tasks


def _src(task):
    return HARNESS.format(cyc=task["cyc"], hlen=task["hlen"], first_mod=task.get("first_mod", -1), first_div=task.get("first_div", 2))


def run_task(task):
    res = new_result()
    res["evaluations"] = 1
    if task["kind"] == "defaults":
        return _defaults(task, res)
    if task["kind"] == "resolve":
        return _resolve(task, res)
    res["functions"] = ["every exported DAG model class" if not task["cyc"] else "every exported cyclic model class", "__init__/solve/get_solution/get_objective_value"]
    out, cpu = xh.run_module(_src(task), f"c18_{task['tid']}", per_condition_timeout=task.get("timeout", 120))
    res["solver_s"] += cpu
    v = out.get("history", {"verdict": "error", "message": "no output"})
    res["obligations"] += 1
    res["queries"] += 1
    n_cls = 11 if not task["cyc"] else 8
    res["evaluations"] = (n_cls * 3) ** task["hlen"]
    res["nontrivial"] += (n_cls * 3) ** task["hlen"] - n_cls * 3
    res["samples"].append({"harness": task["name"], "history": f"symbolic list of {task['hlen']} (class index, shares option dicts?, shares constraint/ignore lists?)", "verdict": v["verdict"], "cpu_s": round(cpu, 1)})
    if v["verdict"] == "confirmed":
        res["discharged"] += 1
    elif v["verdict"] == "counterexample":
        call = xh.parse_call(v["message"])
        res["violations"].append({"signature": f"shared-arguments:{_diag(task, call)}", "summary": f"{task['name']}: {v['message'][:220]}", "replay": {"task": task, "call": call}})
    elif v["verdict"] == "error":
        res["harness_errors"].append(f"crosshair failed on {task['name']}: {v['message'][-800:]}")
    else:
        res["inconclusive"] += 1
    return res


DAG_NAMES = ["kFlowDecomp", "MinFlowDecomp", "kLeastAbsErrors", "kMinPathError", "kPathCover", "MinPathCover", "kLeastAbsErrors+superset", "kMinPathError+superset", "kMinPathError+scale0", "kLeastAbsErrors+scale0", "MinFlowDecomp+scanning", "kMinPathError+node+length", "kMinPathError+edge+length", "MinErrorFlow+eps", "kLeastAbsErrors+extsafe", "kMinPathError+extsafe"]
CYC_NAMES = ["kFlowDecompCycles", "MinFlowDecompCycles", "kLeastAbsErrorsCycles", "kMinPathErrorCycles", "kPathCoverCycles", "MinPathCoverCycles", "kMinPathErrorCycles+scale0", "kLeastAbsErrorsCycles+scale0", "kMinPathErrorCycles+percentile", "kLeastAbsErrorsCycles+node", "MinErrorFlow+eps"]


def _diag(task, call):
    """name the first class of the failing history that changes caller data / the step whose result differs"""
    if not call:
        return "counterexample"
    import importlib.util, os, tempfile
    fn, pos, kw = call
    cs = kw.get("cs", pos[0] if pos else [])
    so = kw.get("so", pos[1] if len(pos) > 1 else [])
    sl = kw.get("sl", pos[2] if len(pos) > 2 else [])
    names = CYC_NAMES if task["cyc"] else DAG_NAMES
    try:
        d = tempfile.mkdtemp(prefix="c18_", dir=xh.SCRATCH if os.path.isdir(xh.SCRATCH) else None)
        p = os.path.join(d, "h.py")
        open(p, "w").write(_src(task))
        spec_ = importlib.util.spec_from_file_location("_c18diag", p)
        mod = importlib.util.module_from_spec(spec_)
        spec_.loader.exec_module(mod)
        sh = mod._fresh_shared()
        for i in range(len(cs)):
            unchanged, r, rep_ok = mod._step(cs[i], bool(so[i]), bool(sl[i]), sh)
            if not unchanged:
                return f"{names[cs[i]]}:mutates-caller-arguments"
            if not rep_ok:
                return f"{names[cs[i]]}:repeated-calls-disagree"
            if r != mod._baseline(cs[i], bool(so[i]), bool(sl[i])):
                return f"{names[cs[i]]}:result-depends-on-earlier-models"
    except Exception as e:
        return f"counterexample({type(e).__name__})"
    finally:
        import shutil
        shutil.rmtree(d, ignore_errors=True)
    return "counterexample"


def _defaults(task, res):
    """mutable default arguments of every exported __init__ must still have their pristine value after models were built and solved"""
    import flowpaths as fp
    import networkx as nx
    res["functions"] = ["default arguments of every exported class' __init__ (inspect.signature)"]
    names = [n for n in dir(fp) if inspect.isclass(getattr(fp, n))]
    before = {}
    for n in names:
        try:
            sig = inspect.signature(getattr(fp, n).__init__)
        except (TypeError, ValueError):
            continue
        for pn, p in sig.parameters.items():
            if isinstance(p.default, (list, dict, set)):
                before[(n, pn)] = (p.default, repr(p.default))
    # exercise the models with all-default optional arguments
    G = nx.DiGraph()
    for (u, v, f) in [("a", "b", 3), ("a", "c", 2), ("b", "d", 2), ("c", "d", 3), ("b", "c", 1)]:
        G.add_edge(u, v, flow=f)
    H = nx.DiGraph()
    for (u, v, f) in [("s", "a", 2), ("a", "b", 3), ("b", "a", 1), ("b", "t", 2), ("a", "a", 1)]:
        H.add_edge(u, v, flow=f)
    N = nx.DiGraph()
    N.add_edges_from([("a", "b"), ("b", "c")])
    for v in N.nodes():
        N.nodes[v]["flow"] = 2
    runs = [lambda: fp.kFlowDecomp(G, "flow", k=3), lambda: fp.MinFlowDecomp(G, "flow"), lambda: fp.kLeastAbsErrors(G, "flow", k=2), lambda: fp.kMinPathError(G, "flow", k=2),
            lambda: fp.kPathCover(G, k=2), lambda: fp.MinPathCover(G), lambda: fp.kFlowDecompCycles(H, "flow", k=2), lambda: fp.MinFlowDecompCycles(H, "flow"),
            lambda: fp.kLeastAbsErrorsCycles(H, "flow", k=2), lambda: fp.kMinPathErrorCycles(H, "flow", k=2), lambda: fp.kPathCoverCycles(H, k=2), lambda: fp.MinPathCoverCycles(H),
            lambda: fp.MinErrorFlow(G, "flow"), lambda: fp.MinFlowDecomp(N, "flow", flow_attr_origin="node"), lambda: fp.kMinPathError(N, "flow", k=1, flow_attr_origin="node"),
            lambda: fp.MinPathCover(N, cover_type="node"), lambda: fp.MinGenSet([1, 2, 3], total=6), lambda: fp.MinSetCover([1, 2], [[1], [2]], [1, 1]),
            lambda: fp.kMinPathError(G, "flow", k=2, error_scaling={("a", "c"): 0}), lambda: fp.kLeastAbsErrors(G, "flow", k=2, error_scaling={("a", "c"): 0}),
            lambda: fp.kMinPathErrorCycles(H, "flow", k=2, error_scaling={("a", "a"): 0}), lambda: fp.kLeastAbsErrorsCycles(H, "flow", k=2, error_scaling={("a", "a"): 0}),
            lambda: fp.MinErrorFlow(G, "flow", error_scaling={("a", "c"): 0}), lambda: fp.kLeastAbsErrors(G, "flow", k=2, solution_weights_superset=[1, 2, 3]),
            lambda: fp.kMinPathError(N, "flow", k=1, flow_attr_origin="node", error_scaling={"b": 0}), lambda: fp.kFlowDecomp(N, "flow", k=1, flow_attr_origin="node", elements_to_ignore=["b"]),
            # rarely used options, all other optional arguments at their defaults
            lambda: fp.kMinPathErrorCycles(H, "flow", k=2, elements_to_ignore_percentile=40), lambda: fp.kMinPathErrorCycles(H, "flow", k=2, trusted_edges_for_safety_percentile=50),
            lambda: fp.kMinPathErrorCycles(H, "flow", k=None, elements_to_ignore_percentile=60),
            lambda: fp.kMinPathError(G, "flow", k=2, path_length_ranges=[[0, 3], [4, 50]], path_length_factors=[1, 2]),
            lambda: fp.kMinPathError(G, "flow", k=2, additional_starts=["b"], additional_ends=["c"]), lambda: fp.kLeastAbsErrorsCycles(H, "flow", k=2, additional_starts=["a"], additional_ends=["b"]),
            lambda: fp.kFlowDecomp(G, "flow", k=3, optimization_options={"optimize_with_safety_as_subpath_constraints": True, "optimize_with_greedy": False}),
            lambda: fp.kMinPathError(G, "flow", k=2, optimization_options={"optimize_with_safety_as_subpath_constraints": True}),
            lambda: fp.MinFlowDecomp(G, "flow", optimization_options={"use_min_gen_set_lowerbound": True, "use_min_gen_set_lowerbound_partition_constraints": True, "optimize_with_greedy": False}),
            lambda: fp.MinFlowDecomp(G, "flow", optimization_options={"optimize_with_guessed_weights": True, "optimize_with_greedy": False}),
            lambda: fp.kFlowDecompCycles(H, "flow", k=2, optimization_options={"optimize_with_safe_sequences_fix_via_bounds": True}),
            lambda: fp.kLeastAbsErrorsCycles(H, "flow", k=2, optimization_options={"optimize_with_safety_as_subset_constraints": True}),
            lambda: fp.kPathCoverCycles(H, k=2, optimization_options={"optimize_with_max_safe_antichain_as_subset_constraints": True}),
            lambda: fp.MinFlowDecompCycles(H, "flow", optimization_options={"use_min_gen_set_lowerbound": True, "optimize_with_guessed_weights": True}),
            lambda: fp.MinErrorFlow(G, "flow", few_flow_values_epsilon=0.5), lambda: fp.MinErrorFlow(H, "flow", additional_starts=["a"], additional_ends=["b"]),
            lambda: fp.MinErrorFlow(G, "flow", sparsity_lambda=0.5), lambda: fp.MinGenSet([1, 2, 3, 6], total=6, partition_constraints=[[2, 4]]), lambda: fp.MinGenSet([2, 5], total=3, max_multiplicity=2)]
    for mk in runs:
        try:
            m = mk()
            m.solve()
        except Exception:
            pass
    res["nontrivial"] += len(before)
    res["evaluations"] = max(1, len(before))
    for (n, pn), (obj, rep) in before.items():
        res["obligations"] += 1
        if repr(obj) != rep:
            res["violations"].append({"signature": f"{n}.__init__:mutable-default-{pn}-modified", "summary": f"default of {n}.__init__({pn}) was {rep}, is now {repr(obj)[:120]}", "replay": {"task": task}})
        else:
            res["discharged"] += 1
    res["samples"].append({"obligation": "mutable default arguments keep their value", "checked": [f"{n}.{pn}" for (n, pn) in list(before)[:12]], "count": len(before)})
    return res


def _resolve(task, res):
    """solve(), getters, solve() again, getters again on one object: same verdict, same optimum, same size (inputs that need a non-trivial optimum)"""
    import flowpaths as fp
    import networkx as nx
    res["functions"] = ["solve()/get_solution()/get_objective_value() called twice on one object, every exported model class"]
    def g(edges):
        G_ = nx.DiGraph()
        for (u, v, f) in edges:
            G_.add_edge(u, v, flow=f)
        return G_
    D = [("a", "b", 3), ("a", "c", 2), ("b", "d", 2), ("c", "d", 3), ("b", "c", 1)]                     # conserving DAG
    Dn = [("s", "a", 6), ("a", "b", 22), ("s", "b", 7), ("a", "c", 4), ("b", "c", 29), ("c", "d", 26), ("d", "t", 6), ("c", "t", 7)]   # not conserving
    C = [("s", "a", 2), ("a", "b", 3), ("b", "a", 1), ("b", "t", 2), ("a", "a", 1)]
    Cn = [("s", "a", 2), ("a", "b", 5), ("b", "a", 1), ("b", "t", 4)]
    mk = [("kFlowDecomp", lambda: fp.kFlowDecomp(g(D), "flow", k=3, weight_type=int)), ("MinFlowDecomp", lambda: fp.MinFlowDecomp(g(D), "flow", weight_type=int)),
          ("MinFlowDecomp/no-greedy", lambda: fp.MinFlowDecomp(g(D), "flow", weight_type=int, optimization_options={"optimize_with_greedy": False})),
          ("kLeastAbsErrors", lambda: fp.kLeastAbsErrors(g(Dn), "flow", k=2, weight_type=int)), ("kMinPathError", lambda: fp.kMinPathError(g(Dn), "flow", k=2, weight_type=int)),
          ("kPathCover", lambda: fp.kPathCover(g(D), k=2)), ("MinPathCover", lambda: fp.MinPathCover(g(D))),
          ("kFlowDecompCycles", lambda: fp.kFlowDecompCycles(g(C), "flow", k=2, weight_type=int)), ("MinFlowDecompCycles", lambda: fp.MinFlowDecompCycles(g(C), "flow", weight_type=int)),
          ("kLeastAbsErrorsCycles", lambda: fp.kLeastAbsErrorsCycles(g(Cn), "flow", k=1, weight_type=int)), ("kMinPathErrorCycles", lambda: fp.kMinPathErrorCycles(g(Cn), "flow", k=1, weight_type=int)),
          ("kPathCoverCycles", lambda: fp.kPathCoverCycles(g(C), k=2)), ("MinPathCoverCycles", lambda: fp.MinPathCoverCycles(g(C))),
          ("MinErrorFlow", lambda: fp.MinErrorFlow(g(Dn), "flow", weight_type=int)), ("MinErrorFlow/cyclic", lambda: fp.MinErrorFlow(g(Cn), "flow", weight_type=int)),
          ("MinErrorFlow+eps", lambda: fp.MinErrorFlow(g(Dn), "flow", weight_type=int, few_flow_values_epsilon=0.5)),
          ("MinErrorFlow+eps/cyclic", lambda: fp.MinErrorFlow(g(Cn), "flow", weight_type=int, few_flow_values_epsilon=0.5)),
          ("MinErrorFlow+lambda", lambda: fp.MinErrorFlow(g(Dn), "flow", weight_type=float, sparsity_lambda=0.5)),
          ("MinGenSet", lambda: fp.MinGenSet([1, 2, 4, 8], total=15, weight_type=int)), ("MinSetCover", lambda: fp.MinSetCover([1, 2, 3], [[1, 2], [2, 3], [3]])),
          # generic search over the number of paths with a stopping rule on the objective improvement (three disjoint routes 5/3/2)
          ("NumPathsOptimization+delta_abs", lambda: fp.NumPathsOptimization(model_type=fp.kLeastAbsErrors, stop_on_delta_abs=1, min_num_paths=1, max_num_paths=4,
                                                                           G=g([("s", "a", 5), ("a", "t", 5), ("s", "b", 3), ("b", "t", 3), ("s", "c", 2), ("c", "t", 2)]), flow_attr="flow", weight_type=int)),
          ("NumPathsOptimization+delta_rel", lambda: fp.NumPathsOptimization(model_type=fp.kMinPathError, stop_on_delta_rel=0.1, min_num_paths=1, max_num_paths=4,
                                                                           G=g([("s", "a", 5), ("a", "t", 4), ("s", "b", 3), ("b", "t", 3), ("s", "c", 2), ("c", "t", 1)]), flow_attr="flow", weight_type=int))]
    def view(m):
        sol = m.get_solution()
        size = len(sol.get("paths", sol.get("walks", []))) if isinstance(sol, dict) else len(sol)
        try:
            obj = round(float(m.get_objective_value()), 6)
        except Exception:
            obj = None
        return (size, obj)
    for name, make in mk:
        res["obligations"] += 1
        res["nontrivial"] += 1
        try:
            m = make()
            ok1 = bool(m.solve())
            v1 = view(m) if ok1 else None
        except Exception as e:
            # the first call itself fails: not a statement about repeated calls (recorded, not judged here)
            res["extra"]["first_call_raised"] = res["extra"].get("first_call_raised", []) + [f"{name}: {type(e).__name__}"]
            continue
        try:
            v1b = view(m) if ok1 else None
            ok2 = bool(m.solve())
            v2 = view(m) if ok2 else None
        except Exception as e:
            res["violations"].append({"signature": f"{name.split('/')[0]}:repeated-calls-raise", "summary": f"{name}: {type(e).__name__}: {str(e)[:150]}", "replay": {"task": task}})
            continue
        if ok1 != ok2 or v1 != v2 or v1 != v1b:
            res["violations"].append({"signature": f"{name.split('/')[0]}:repeated-calls-disagree", "summary": f"{name}: first solve {ok1} {v1}, getters again {v1b}, second solve {ok2} {v2}", "replay": {"task": task}})
        else:
            res["discharged"] += 1
    res["evaluations"] = len(mk)
    res["samples"].append({"obligation": "solve(); getters; solve(); getters on one object agree (verdict, size, objective)", "classes": [n for n, _ in mk]})
    return res


def replay(data):
    task = data["task"]
    if task["kind"] in ("defaults", "resolve"):
        r = run_task(task)
        for v in r["violations"]:
            print("  replay:", v["summary"])
        return bool(r["violations"])
    call = data.get("call")
    if not call:
        return False
    fn, pos, kw = call
    r = xh.call_concretely(_src(task), "c18_replay", fn, pos, kw)
    print(f"  replay: {fn}({pos},{kw}) -> {r}  [{_diag(task, call)}]")
    return r is False


RULE = ("one evaluation = one history of model constructions/solves sharing the caller's graph, option dictionaries, constraint and ignore lists (class index and sharing bits symbolic); "
        "non-trivial = histories of length >= 2; plus one case per mutable default argument of an exported __init__")
ASSUMPTIONS = [
    "models are built and solved concretely under NoTracing on one DAG instance and one cyclic instance; CrossHair covers all histories of length 2 (3 in thorough) over 14 (11) class variants (incl. given weights, zero error scale, subgraph scanning, ignore percentile, MinErrorFlow with few-values epsilon, node-weighted variants with a length attribute) x 3 sharing patterns (nothing shared / option dicts / option dicts + constraint and ignore lists)",
    "checked after every step: deep equality (repr) of the caller's graph incl. attributes, both option dicts, constraint and ignore lists with their pre-image; (solved, objective, #routes) equals the same call on fresh copies; get_solution/get_objective_value repeated twice agree; a second solve() on one object (same verdict, optimum, number of routes) is checked concretely for every class in the 'resolve' task",
]


def main(tier, seed):
    t0 = time.time()
    tasks = gen_tasks(tier, seed)
    for t in tasks:
        t["timeout"] = 140 if tier == "quick" else 900
    acc = core.run_tasks(run_task, tasks, deadline_s=175 if tier == "quick" else 2400)
    bounds = {"history_len": 2 if tier == "quick" else 3, "class_variants": {"dag": 14, "cyclic": 11}, "sharing_patterns": 3}
    return core.finish(PID, tier, seed, LEVEL, acc, t0, RULE, ASSUMPTIONS, bounds, replay)
