"""C14 -- walk reconstruction uses every edge exactly as often as the solver decided.

CrossHair executes the real ``AbstractWalkModelDiGraph.get_solution_walks`` (``_build_residual_graph_for_layer``,
``_reconstruct_eulerian_walk``, ``_build_closed_walk_from_vertex``) with a *symbolic* multiplicity per edge of an
enumerated universe graph; the topology inside the universe (which edges have multiplicity 0) is thereby symbolic.
"""
from __future__ import annotations

import itertools
import random
import time

from .. import core, xh
from ..core import new_result

PID = "C14"
LEVEL = "model_checking"

TEMPLATE = xh.PRELUDE + '''
from typing import List
from flowpaths.abstractwalkmodeldigraph import AbstractWalkModelDiGraph

NODES = {nodes!r}
EDGES = {edges!r}
INNER = [n for n in NODES if n not in ("S", "T")]
MAXM = {maxm}

class _G:
    source = "S"
    sink = "T"
    def nodes(self):
        return list(NODES)
    def edges(self):
        return list(EDGES)

class _M(AbstractWalkModelDiGraph):
    def __init__(self):
        pass
    def get_solution(self):
        pass
    def get_lowerbound_k(self):
        pass
    def is_valid_solution(self):
        pass
    def get_objective_value(self):
        pass

def _connected(m: List[int]) -> bool:
    reach = {{"S"}}
    for _ in range(len(NODES)):
        for (u, v), x in zip(EDGES, m):
            if x > 0 and u in reach:
                reach.add(v)
    for (u, v), x in zip(EDGES, m):
        if x > 0 and u not in reach:
            return False
    return True

def _balanced(m: List[int]) -> bool:
    for n in INNER:
        i = sum(x for (u, v), x in zip(EDGES, m) if v == n)
        o = sum(x for (u, v), x in zip(EDGES, m) if u == n)
        if i != o:
            return False
    return sum(x for (u, v), x in zip(EDGES, m) if u == "S") <= 1

def _walk(m):
    M = _M()
    M.G = _G()
    M.k = 1
    M.edge_vars_sol = {{(u, v, 0): m[i] for i, (u, v) in enumerate(EDGES)}}
    return M.get_solution_walks()[0]

def check_reconstruct(m: List[int]) -> bool:
    """
    pre: len(m) == len(EDGES)
    pre: all(0 <= x <= MAXM for x in m)
    pre: _balanced(m)
    pre: _connected(m)
    post: _
    """
    w = _walk(m)
    if sum(x for (u, v), x in zip(EDGES, m) if u == "S") == 0:
        return w == []
    full = ["S"] + w + ["T"]
    cnt = {{e: 0 for e in EDGES}}
    for u, v in zip(full[:-1], full[1:]):
        if (u, v) not in cnt:
            return False
        cnt[(u, v)] += 1
    return all(cnt[e] == m[i] for i, e in enumerate(EDGES))

def twin_reachability(m: List[int]) -> bool:
    """
    pre: len(m) == len(EDGES)
    pre: all(0 <= x <= MAXM for x in m)
    pre: _balanced(m)
    pre: _connected(m)
    pre: sum(m) >= 4
    post: False
    """
    _walk(m)
    return True

check_reconstruct([0] * len(EDGES))
'''

CURATED = {
    "nested_cycles": [("S", "a"), ("a", "b"), ("a", "T"), ("b", "c"), ("b", "a"), ("c", "b"), ("c", "c")],
    "touching_cycles": [("S", "a"), ("a", "b"), ("b", "a"), ("a", "c"), ("c", "a"), ("a", "a"), ("a", "T")],
    "two_entries": [("S", "a"), ("S", "b"), ("a", "b"), ("b", "a"), ("b", "c"), ("c", "b"), ("a", "T"), ("c", "T")],
    "cycle_behind_cycle": [("S", "a"), ("a", "b"), ("b", "a"), ("b", "c"), ("c", "d"), ("d", "c"), ("c", "b"), ("a", "T")],
    "loops_everywhere": [("S", "a"), ("a", "a"), ("a", "b"), ("b", "b"), ("b", "a"), ("b", "T"), ("a", "T")],
    "triangle_chords": [("S", "a"), ("a", "b"), ("b", "c"), ("c", "a"), ("a", "c"), ("c", "b"), ("b", "a"), ("c", "T")],
}


def gen_tasks(tier, seed):
    rng = random.Random(seed + 14)
    tasks = []
    for name, es in CURATED.items():
        orders = [es, list(reversed(es))]
        if tier != "quick":
            sh = list(es)
            rng.shuffle(sh)
            orders.append(sh)
        for oi, order in enumerate(orders):
            tasks.append({"name": f"{name}#{oi}", "edges": order, "maxm": 2})
    # random sub-universes of the complete digraph with self loops on 3 (4) inner nodes
    n_rand = 4 if tier == "quick" else 24
    for i in range(n_rand):
        inner = ["a", "b", "c"] if (tier == "quick" or i % 2 == 0) else ["a", "b", "c", "d"]
        univ = [(u, v) for u in inner for v in inner]
        k = 6 if len(inner) == 3 else 7
        es = rng.sample(univ, k) + [("S", rng.choice(inner)), (rng.choice(inner), "T")]
        if rng.random() < 0.5:
            es.append(("S", rng.choice(inner)))
        es = list(dict.fromkeys(es))
        rng.shuffle(es)
        tasks.append({"name": f"rand{len(inner)}_{i}", "edges": es, "maxm": 2 if len(es) > 8 else 3})
    for i, t in enumerate(tasks):
        t["tid"] = i
    return tasks


def _source(task):
    nodes = ["S"] + sorted({x for e in task["edges"] for x in e if x not in ("S", "T")}) + ["T"]
    return TEMPLATE.format(nodes=nodes, edges=[tuple(e) for e in task["edges"]], maxm=task["maxm"])


def run_task(task):
    res = new_result()
    res["functions"] = ["AbstractWalkModelDiGraph.get_solution_walks", "AbstractWalkModelDiGraph._build_residual_graph_for_layer",
                        "AbstractWalkModelDiGraph._reconstruct_eulerian_walk", "AbstractWalkModelDiGraph._build_closed_walk_from_vertex"]
    res["evaluations"] = 1
    src = _source(task)
    t = task["timeout"]
    out, cpu = xh.run_module(src, f"c14_{task['tid']}", per_condition_timeout=t)
    res["solver_s"] += cpu
    res["queries"] += 2
    main_v = out.get("check_reconstruct", {"verdict": "error", "message": "no output"})
    twin_v = out.get("twin_reachability", {"verdict": "error", "message": "no output"})
    res["obligations"] += 1
    res["nontrivial"] += 1
    res["samples"].append({"universe": task["name"], "edges": task["edges"], "multiplicity_domain": f"0..{task['maxm']}",
                           "verdict": main_v["verdict"], "reachability_twin": twin_v["verdict"], "cpu_s": round(cpu, 1)})
    if main_v["verdict"] == "confirmed" and twin_v["verdict"] == "counterexample":
        res["discharged"] += 1
    elif main_v["verdict"] == "counterexample":
        call = xh.parse_call(main_v["message"])
        res["violations"].append({"signature": "reconstruction:edge-counts-differ", "summary": f"{task['name']}: {main_v['message'][:200]}",
                                  "replay": {"task": task, "call": call, "message": main_v["message"]}})
    elif main_v["verdict"] == "error" or twin_v["verdict"] == "error":
        res["harness_errors"].append(f"crosshair failed on {task['name']}: {main_v['message'][-600:]} {twin_v['message'][-300:]}")
    else:
        # not confirmed / timeout / vacuous precondition: inconclusive, never success
        res["inconclusive"] += 1
        res["extra"]["inconclusive_kinds"] = [f"{main_v['verdict']}/{twin_v['verdict']}"]
    return res


def replay(data):
    task = data["task"]
    call = data.get("call")
    if not call:
        print("  replay: could not parse CrossHair's counterexample:", data.get("message"))
        return False
    fn, pos, kw = call
    src = _source(task)
    r = xh.call_concretely(src, f"c14_replay", fn, pos, kw)
    print(f"  replay: {fn}({pos}, {kw}) on universe {task['edges']} -> {r}")
    return r is False


RULE = ("one case = one universe graph with a fixed edge insertion order; the multiplicity vector (hence the sub-topology) is symbolic; "
        "non-trivial = every universe (each has >= 2 cycles); discharged = 'Confirmed over all paths' AND the reachability twin (post: False under the same "
        "preconditions with >= 4 traversals) refuted")
ASSUMPTIONS = [
    "CrossHair's model of Python ints/lists/dicts; per-condition time-outs are reported as inconclusive",
    "universe graphs and edge orders are enumerated (<= 4 inner nodes, <= 10 edges); multiplicities 0..2 (0..3 on universes with <= 8 edges)",
    "precondition = balanced at inner nodes, at most one unit leaves the source, every used edge reachable from the source",
]


def main(tier, seed):
    t0 = time.time()
    tasks = gen_tasks(tier, seed)
    for t in tasks:
        t["timeout"] = 60 if tier == "quick" else 300
    acc = core.run_tasks(run_task, tasks, deadline_s=170 if tier == "quick" else 1800)
    bounds = {"inner_nodes_max": 4, "edges_max": 10, "multiplicity_max": 3, "per_condition_timeout_s": tasks[0]["timeout"]}
    return core.finish(PID, tier, seed, LEVEL, acc, t0, RULE, ASSUMPTIONS, bounds, replay)
