"""C07 -- k-Least-Absolute-Errors returns a true optimum with a consistent objective.
(The machinery is shared with C08: ``KIND`` selects the error model.)"""
from __future__ import annotations

import random
import time
from fractions import Fraction

import networkx as nx
import z3

from .. import checkers, core, families as F, hx, instances as I, layers, models, smt, spec
from ..core import HarnessError, new_result
from . import c01

PID = "C07"
LEVEL = "translation_validation"
DELTA = Fraction(1, 10 ** 6)


# --------------------------------------------------------------------------- tasks
def gen_tasks(tier, seed, kind="lae"):
    rng = random.Random(seed + (7 if kind == "lae" else 8))
    cls_d = "kLeastAbsErrors" if kind == "lae" else "kMinPathError"
    cls_c = cls_d + "Cycles"
    tasks = []
    for name, es in I.dag_graphs(tier, rng, quick_n=8, thorough_n5=60):
        G = nx.DiGraph(es)
        routes = F.dag_routes(G)
        inner = [v for v in G.nodes() if G.in_degree(v) > 0 and G.out_degree(v) > 0]
        for rep in range(1 if tier == "quick" else 2):
            arb = I.with_flow(es, I.arbitrary_weights(es, rng, (0, 1, 2, 3, 4)))
            base = {"name": name, "cls": cls_d, "cyc": False, "starts": [], "ends": [], "ignored": [], "scaling": None, "node_mode": False, "allow_empty": False, "kind": kind}
            kk = rng.choice([1, 2]) if len(routes) > 1 else 1
            tasks.append({**base, "edges": arb, "kwargs": {"k": kk, "weight_type": "int"}})
            tasks.append({**base, "edges": arb, "kwargs": {"k": kk, "weight_type": "float"}})
            tasks.append({**base, "edges": arb, "kwargs": {"k": min(3, len(routes)), "weight_type": "int"}})
            e0 = rng.choice(es)
            if len(es) > 1:
                tasks.append({**base, "edges": arb, "ignored": [e0], "kwargs": {"k": kk, "weight_type": "int", "elements_to_ignore": [e0]}})
            sc = {e0: 0.5}
            tasks.append({**base, "edges": arb, "scaling": [[list(e0), 0.5]], "kwargs": {"k": kk, "weight_type": "int", "error_scaling": [[list(e0), 0.5]]}})
            tasks.append({**base, "edges": arb, "scaling": [[list(e0), 0]], "kwargs": {"k": kk, "weight_type": "int", "error_scaling": [[list(e0), 0]]}})
            if inner:
                v, w = rng.choice(inner), rng.choice(inner)
                tasks.append({**base, "edges": arb, "starts": [v], "ends": [w], "kwargs": {"k": kk, "weight_type": "int", "additional_starts": [v], "additional_ends": [w]}})
            # fractional error scale on an edge that the optimum over-shoots / under-shoots: every edge in turn (not sampled),
            # that edge light (4) or heavy (10) against the rest, k = 1
            if rep == 0 and len(es) <= 6:
                for ex in es:
                    for lo, hi in ((4, 10), (10, 4)):
                        sw_ = [(u, v, lo if (u, v) == ex else hi) for (u, v) in es]
                        tasks.append({**base, "edges": sw_, "scaling": [[list(ex), 0.5]], "kwargs": {"k": 1, "weight_type": "int", "error_scaling": [[list(ex), 0.5]]}})
            tasks.append({**base, "edges": arb, "allow_empty": True, "kwargs": {"k": kk + 1, "weight_type": "int", "optimization_options": {"allow_empty_paths": True}}})
            # given weights (each usable once, at most k of them)
            tasks.append({**base, "edges": arb, "allow_empty": True, "superset": [1, 2, 2], "kwargs": {"k": kk, "weight_type": "int", "solution_weights_superset": [1, 2, 2]}})
            nf = {v: rng.choice((0, 1, 2, 3)) for v in G.nodes()}
            if any(nf.values()):
                tasks.append({**base, "edges": es, "node_flow": nf, "node_mode": True, "kwargs": {"k": kk, "weight_type": "int", "flow_attr_origin": "node"}})
                # node-weighted with an additional end / start at an inner node (structured: heavy up to that node, light behind it)
                for vb in inner[:2]:
                    anc = nx.ancestors(G, vb) | {vb}
                    nfs = {v: (5 if v in anc else 1) for v in G.nodes()}
                    tasks.append({**base, "edges": es, "node_flow": nfs, "node_mode": True, "ends": [vb], "kwargs": {"k": 2, "weight_type": "int", "flow_attr_origin": "node", "additional_ends": [vb]}})
                    nfs2 = {v: (1 if v in (anc - {vb}) else 5) for v in G.nodes()}
                    tasks.append({**base, "edges": es, "node_flow": nfs2, "node_mode": True, "starts": [vb], "kwargs": {"k": 2, "weight_type": "int", "flow_attr_origin": "node", "additional_starts": [vb]}})
            # structured weights: one light (zero) edge shared by heavy routes, and one heavy edge among light ones --
            # the optimum then needs an error / explained value well above the largest single weight
            on_routes = {e: sum(1 for r in routes if e in set(zip(r[:-1], r[1:]))) for e in es}
            best = max(on_routes.values())
            estar = rng.choice([e for e in es if on_routes[e] == best])     # the edge shared by most routes (a bridge when there is one)
            light = [(u, v, 0 if (u, v) == estar else 4) for (u, v) in es]
            heavy = [(u, v, 4 if (u, v) == estar else rng.choice((0, 1))) for (u, v) in es]
            for kk2 in sorted({2, min(3, max(1, len(routes)))}):
                tasks.append({**base, "edges": light, "kwargs": {"k": kk2, "weight_type": "int"}})
                tasks.append({**base, "edges": heavy, "kwargs": {"k": kk2, "weight_type": "int"}})
            tasks.append({**base, "edges": light, "kwargs": {"k": 2, "weight_type": "float"}})
            # node-weighted with a zero / fractional error scale on a node
            if any(nf.values()) and len(G) > 2:
                vz = rng.choice([v for v in G.nodes()])
                if any(f for v, f in nf.items() if v != vz):
                    tasks.append({**base, "edges": es, "node_flow": nf, "node_mode": True, "scaling": [[vz, 0]], "kwargs": {"k": kk, "weight_type": "int", "flow_attr_origin": "node", "error_scaling": [[vz, 0]]}})
                    tasks.append({**base, "edges": es, "node_flow": nf, "node_mode": True, "scaling": [[vz, 0.5]], "kwargs": {"k": kk, "weight_type": "int", "flow_attr_origin": "node", "error_scaling": [[vz, 0.5]]}})
            if kind == "mpe":
                for fac in (2, 0.5):
                    tasks.append({**base, "edges": arb, "allow_empty": True, "superset": [1, 2, 2], "plf": {"ranges": [[0, 3], [4, 50]], "factors": [1, fac]},
                                  "kwargs": {"k": kk, "weight_type": "int", "solution_weights_superset": [1, 2, 2], "path_length_ranges": [[0, 3], [4, 50]], "path_length_factors": [1, fac]}})
                    tasks.append({**base, "edges": arb, "plf": {"ranges": [[0, 3], [4, 50]], "factors": [fac, 1]},
                                  "kwargs": {"k": kk, "weight_type": "int", "path_length_ranges": [[0, 3], [4, 50]], "path_length_factors": [fac, 1]}})
                # a factor well below 1 on every length, with one heavy and one empty edge on a route (slack above the largest weight)
                hv = [(u, v, 4 if j % 2 == 0 else 0) for j, (u, v) in enumerate(es)]
                for fac in (0.5, 0.25):
                    tasks.append({**base, "edges": hv, "plf": {"ranges": [[0, 50]], "factors": [fac]},
                                  "kwargs": {"k": kk, "weight_type": "int", "path_length_ranges": [[0, 50]], "path_length_factors": [fac]}})
                tasks.append({**base, "edges": arb, "plf": {"ranges": [[0, 3], [4, 50]], "factors": [1, 2]},
                              "kwargs": {"k": kk, "weight_type": "int", "path_length_ranges": [[0, 3], [4, 50]], "path_length_factors": [1, 2]}})
    # one walk that must cross a cycle edge exactly W times, W a power of two and the largest weight (exact optimum 0):
    # exercises the bit decomposition of traversal count x weight at its boundary; handed out first ("cost")
    for W in ((2, 4) if tier == "quick" else (2, 3, 4, 8)):
        for wt in ("int", "float"):
            tasks.append({"name": f"two_cycle_W{W}", "cls": cls_c, "cyc": True, "starts": [], "ends": [], "ignored": [], "scaling": None, "node_mode": False, "allow_empty": False, "kind": kind,
                          "cost": 10 ** 6, "edges": [("s", "a", 1), ("a", "b", W), ("b", "a", W - 1), ("b", "t", 1)], "kwargs": {"k": 1, "weight_type": wt}})
    for name, es in I.digraphs(tier, rng, quick_n=8, thorough_n=80):
        G = nx.DiGraph(es)
        arbw = I.arbitrary_weights(es, rng, (0, 1, 2, 3))
        arb = I.with_flow(es, arbw)
        base = {"name": name, "cls": cls_c, "cyc": True, "starts": [], "ends": [], "ignored": [], "scaling": None, "node_mode": False, "allow_empty": False, "kind": kind}
        tasks.append({**base, "edges": arb, "kwargs": {"k": 1, "weight_type": "int"}})
        tasks.append({**base, "edges": arb, "kwargs": {"k": 2, "weight_type": "int"}})
        tasks.append({**base, "edges": arb, "kwargs": {"k": 1, "weight_type": "float"}})
        e0 = rng.choice(es)
        tasks.append({**base, "edges": arb, "ignored": [e0], "kwargs": {"k": 1, "weight_type": "int", "elements_to_ignore": [e0]}})
        tasks.append({**base, "edges": arb, "scaling": [[list(e0), 0.5]], "kwargs": {"k": 2, "weight_type": "int", "error_scaling": [[list(e0), 0.5]]}})
        tasks.append({**base, "edges": arb, "kwargs": {"k": 2, "weight_type": "int", "optimization_options": {"optimize_with_safe_sequences": False}}})
        inner = [v for v in G.nodes() if G.in_degree(v) > 0 and G.out_degree(v) > 0]
        if inner:
            v, w = rng.choice(inner), rng.choice(inner)
            tasks.append({**base, "edges": arb, "starts": [v], "ends": [w], "kwargs": {"k": 2, "weight_type": "int", "additional_starts": [v], "additional_ends": [w]}})
            # node-weighted with walks that may start / end at inner nodes
            nf = {x: rng.choice((1, 2, 3, 5)) for x in G.nodes()}
            tasks.append({**base, "edges": es, "node_flow": nf, "node_mode": True, "starts": [], "ends": [w],
                          "kwargs": {"k": 2, "weight_type": "int", "flow_attr_origin": "node", "additional_ends": [w]}})
            tasks.append({**base, "edges": es, "node_flow": nf, "node_mode": True, "starts": [v], "ends": [],
                          "kwargs": {"k": 2, "weight_type": "int", "flow_attr_origin": "node", "additional_starts": [v]}})
        nfs = {x: rng.choice((1, 2, 3)) for x in G.nodes()}
        vz = rng.choice(list(G.nodes()))
        for sc0 in (0, 0.5):
            tasks.append({**base, "edges": es, "node_flow": nfs, "node_mode": True, "scaling": [[vz, sc0]], "kwargs": {"k": 2, "weight_type": "int", "flow_attr_origin": "node", "error_scaling": [[vz, sc0]]}})
        if kind == "mpe":
            tasks.append({**base, "edges": es, "node_flow": nfs, "node_mode": True, "scaling": [[vz, 0]], "kwargs": {"k": None, "weight_type": "int", "flow_attr_origin": "node", "error_scaling": [[vz, 0]]}})
        nfz = {x: rng.choice((0, 1, 2, 3)) for x in G.nodes()}
        if any(nfz.values()):
            tasks.append({**base, "edges": es, "node_flow": nfz, "node_mode": True, "kwargs": {"k": 1, "weight_type": "int", "flow_attr_origin": "node"}})
    def _has_positive(t):
        ign = {tuple(e) if isinstance(e, list) else e for e in t["ignored"]}
        z = {tuple(k) if isinstance(k, list) else k for k, v in (t["scaling"] or []) if v == 0}
        if t["node_mode"]:
            return any(f for v, f in (t.get("node_flow") or {}).items() if v not in ign and v not in z)
        return any(f for (u, v, f) in t["edges"] if (u, v) not in ign and (u, v) not in z)
    tasks = [t for t in tasks if _has_positive(t)]   # property domain: weights "not all zero" (read on the non-ignored elements)
    for i, t in enumerate(tasks):
        t["tid"] = i
    return tasks


# --------------------------------------------------------------------------- spec
def _scaling(task):
    if not task["scaling"]:
        return {}
    return {(tuple(k) if isinstance(k, list) else k): v for k, v in task["scaling"]}


def build_spec(task, G, mult_max=None):
    kw = task["kwargs"]
    wt = kw.get("weight_type", "float")
    sup = task.get("superset")
    k = len(sup) if sup else kw["k"]
    if k is None:
        k = task["k_resolved"]
    allow_empty = task["allow_empty"] or bool(sup)
    if task["cyc"]:
        fmax = max([e[2] for e in task["edges"] if len(e) > 2 and e[2] is not None] + [1]) if not task["node_mode"] else max(list((task.get("node_flow") or {}).values()) + [1])
        if task["kind"] == "cover":
            fmax = max(fmax, G.number_of_nodes())
        mm = mult_max or (int(fmax) + 1)
        sp = spec.WalkEuler(G, k, wtype=wt, starts=task["starts"], ends=task["ends"], allow_empty=allow_empty, mult_max=mm, bound_visits=task["node_mode"])
    else:
        sp = spec.RouteSpec(G, k, wtype=wt, starts=task["starts"], ends=task["ends"], allow_empty=allow_empty, sym_break=not sup)
    cons = list(sp.cons)
    if sup:
        cons += [sp.w[i] == sup[i] for i in range(k)]
        cons.append(z3.Sum([z3.If(sp.nonempty(i), 1, 0) for i in range(k)]) <= kw["k"])
    sc = _scaling(task)
    dem = [(e, f) for (e, f) in spec.demands_of(G, "flow", task["node_mode"], task["ignored"]) if sc.get(e, 1) != 0]
    if task.get("constraints"):
        cons += constraint_spec(task, G, sp)
    if task["kind"] == "feas":
        return sp, cons, z3.IntVal(0)
    if task["kind"] == "fd":
        return sp, cons + spec.flow_decomposition(sp, dem), z3.IntVal(0)
    if task["kind"] == "cover":
        return sp, cons + cons_cover_elems(task, G, sp), z3.IntVal(0)
    if task["kind"] == "lae":
        c2, obj = spec.abs_error_objective(sp, dem, sc)
        cons += c2
    else:
        mk = z3.Int if wt == "int" else z3.Real
        sl = [mk(f"sl_{i}") for i in range(k)]
        cons += [s >= 0 for s in sl]
        plf = task.get("plf")
        for (e, f) in dem:
            ex = sp.explained(e)
            if task["cyc"]:
                hi = sp.mult_max + 1 if isinstance(e, str) else sp.mult_max
                through = z3.Sum([z3.Sum([z3.If(sp.count(i, e) == j, j * sl[i], 0) for j in range(1, hi + 1)]) for i in range(k)])
            elif plf:
                terms = []
                for i in range(k):
                    for r, p in enumerate(sp.routes):
                        inside = (e in p) if isinstance(e, str) else (tuple(e) in set(zip(p[:-1], p[1:])))
                        if inside:
                            ln = len(p) + 1
                            fac = [c for (lo, hi_), c in zip(plf["ranges"], plf["factors"]) if lo <= ln <= hi_]
                            terms.append(z3.If(sp.c[i] == r, smt.q(fac[0]) * sl[i], 0) if fac else z3.If(sp.c[i] == r, -1000000, 0))
                through = z3.Sum(terms) if terms else z3.IntVal(0)
            else:
                through = z3.Sum([z3.If(sp.contains(i, e), sl[i], 0) for i in range(k)])
            s_e = smt.q(sc.get(e, 1))
            cons += [s_e * (smt.q(f) - ex) <= through, s_e * (ex - smt.q(f)) <= through]
        if plf:
            # every non-empty path must have a length inside some range (otherwise the model is infeasible by documentation)
            for i in range(k):
                ok_r = [r for r, p in enumerate(sp.routes) if any(lo <= len(p) + 1 <= hi_ for (lo, hi_) in plf["ranges"])]
                cons.append(z3.Or([sp.c[i] == r for r in ok_r] + ([sp.c[i] == sp.R] if allow_empty else [])))
        obj = z3.Sum(sl) if sl else z3.IntVal(0)
    return sp, cons, obj


def constraint_spec(task, G, sp):
    cov = task.get("coverage", 1.0)
    if task["cyc"]:
        return spec.subset_constraints_satisfied(sp, task["constraints"], cov)
    if task.get("cov_len") is not None:
        lengths = {(u, v): (e[3] if len(e) > 3 and e[3] is not None else 1) for e in task["edges"] for (u, v) in [(e[0], e[1])]}
        return spec.constraints_satisfied(sp, task["constraints"], task["cov_len"], lengths)
    return spec.constraints_satisfied(sp, task["constraints"], cov)


def cons_cover_elems(task, G, sp):
    ign = {tuple(x) if not isinstance(x, str) else x for x in task["ignored"]}
    els = [v for v in G.nodes() if v not in ign] if task["node_mode"] else [e for e in G.edges() if e not in ign]
    return spec.cover(sp, els)


# --------------------------------------------------------------------------- real model helpers
def _decoded_terms(enc, m, cols, wcols, e_int):
    """z3 term of the flow explained on internal edge e_int by the decoded layers (ite on x and w)"""
    given = getattr(m, "solution_weights_superset", None)
    terms = []
    for i in range(m.k):
        x = enc.xs[cols[(e_int[0], e_int[1], i)]]
        w = smt.q(given[i]) if given is not None else enc.xs[wcols[i]]
        ub = enc.lp.ub[cols[(e_int[0], e_int[1], i)]]
        ub = int(ub) if ub is not None else 1
        if ub <= 1:
            terms.append(z3.If(x == 1, w, 0))
        else:
            terms.append(z3.Sum([z3.If(x == c, c * w, 0) for c in range(1, ub + 1)]))
    return z3.Sum(terms)


def recompute(task, G, sol, key):
    """(per-element absolute errors, scaled total) recomputed from the returned routes and weights"""
    routes, ws = sol[key], sol["weights"]
    sc = _scaling(task)
    errs = {}
    total = Fraction(0)
    if task["node_mode"]:
        exp = {v: Fraction(0) for v in G.nodes()}
        for r, w in zip(routes, ws):
            for v in r:
                exp[v] += Fraction(w)
        dem = spec.demands_of(G, "flow", True, task["ignored"])
    else:
        exp = {e: Fraction(0) for e in G.edges()}
        for r, w in zip(routes, ws):
            for e in zip(r[:-1], r[1:]):
                if e in exp:
                    exp[e] += Fraction(w)
        dem = spec.demands_of(G, "flow", False, task["ignored"])
    for e, f in dem:
        if sc.get(e, 1) == 0:
            continue
        errs[e] = abs(Fraction(f) - exp[e])
        total += Fraction(sc.get(e, 1)) * errs[e]
    return errs, total, exp


def run_task(task):
    res = new_result()
    kind = task["kind"]
    cls = task["cls"]
    res["functions"] = [f"{cls}.__init__/_encode_*/get_solution/get_objective_value/is_valid_solution",
                        "AbstractWalkModelDiGraph._encode_walks" if task["cyc"] else "AbstractPathModelDAG._encode_paths", "SolverWrapper product helpers"]
    res["evaluations"] = 1
    key = "walks" if task["cyc"] else "paths"
    try:
        m, G, ok, snaps = models.build_and_solve(task)
    except Exception as e:
        res["extra"]["raised_instead_of_solving"] = 1
        res["extra"]["raised_kinds"] = [f"{cls}:{type(e).__name__}"]
        return res
    desc = {k: task.get(k) for k in ("cls", "name", "edges", "node_flow", "kwargs")}
    lp = snaps[-1]
    if models.check_honest_against_lp(lp):
        raise HarnessError("translator validation failed (honest answer violates translated LP)")
    task = dict(task)
    task["k_resolved"] = m.k
    # ---------------- optimum: LP vs Spec
    sp, scons, sobj = build_spec(task, G)
    res["extra"]["programs"] = 1
    is_int = m.weight_type is int
    frac_scale = bool(task["scaling"]) and any(v not in (0, 1) for _k, v in task["scaling"])
    delta = 0 if (is_int and not frac_scale) else DELTA
    if not ok:
        # the model says infeasible: the spec must have no solution either
        res["obligations"] += 1
        s = smt.solver(_qt(90000))
        s.add(scons)
        r = smt.check(s)
        res["samples"].append({"obligation": "model not solved => spec has no solution", "instance": desc, "lp_status": lp.honest_status, "spec": r})
        if r == "unsat":
            res["discharged"] += 1
        elif r == "unknown":
            res["inconclusive"] += 1
        elif lp.honest_status == "kInfeasible" and smt.feasible(lp, timeout_ms=_qt(60000))[0] == "sat":
            # the program handed to HiGHS is feasible (z3) although HiGHS said infeasible: the solver's fault, outside the claim
            res["inconclusive"] += 1
            res["extra"]["highs_declared_feasible_program_infeasible"] = res["extra"].get("highs_declared_feasible_program_infeasible", 0) + 1
        else:
            res["extra"]["disagreements_checked"] = res["extra"].get("disagreements_checked", 0) + 1
            res["violations"].append({"signature": f"{cls}:infeasible-although-solution-exists" + _cap_diag(task, m, lp, sp, s.model()),
                                      "summary": f"{task['name']} k={m.k}: model status {lp.honest_status}, but the spec has a solution",
                                      "replay": {"kind": "optimum", "task": task, "claim": "feasible"}})
        return res
    o_h = Fraction(lp.honest_obj).limit_denominator(10 ** 6)
    res["nontrivial"] += 1 if o_h > 0 or m.k >= 2 else 0
    enc = smt.Enc(lp)
    res["obligations"] += 1
    v, _ = smt.certify_optimum(enc.cons, enc.min_obj, o_h, max(delta, Fraction(1, 10 ** 7)), _qt(90000))
    if v == "equal":
        res["discharged"] += 1
    elif v == "unknown":
        res["inconclusive"] += 1
    else:
        raise HarnessError(f"translator validation (b) failed: z3 optimum of the captured LP differs from HiGHS's {float(o_h)} ({v})")
    res["obligations"] += 1
    v, mdl = smt.certify_optimum(scons, sobj, o_h, delta, _qt(120000))
    res["samples"].append({"obligation": "certified optimum of the captured LP == certified optimum of the independent spec", "instance": desc, "lp_optimum": float(o_h), "verdict": v})
    if v == "equal":
        res["discharged"] += 1
    elif v == "unknown":
        res["inconclusive"] += 1
    else:
        res["extra"]["disagreements_checked"] = res["extra"].get("disagreements_checked", 0) + 1
        if v == "lower_exists":
            better = smt.fr_of(mdl, sobj)
            sig = f"{cls}:reported-optimum-above-true-optimum" + _cap_diag(task, m, lp, sp, mdl)
            summ = f"{task['name']} k={m.k}: model optimum {float(o_h)}, spec finds {float(better)}"
        else:
            sig = f"{cls}:reported-optimum-below-true-optimum"
            summ = f"{task['name']} k={m.k}: model optimum {float(o_h)} is not attainable by any k routes/weights"
        res["violations"].append({"signature": sig, "summary": summ, "replay": {"kind": "optimum", "task": task, "claim": v, "o_h": str(o_h)}})
    # ---------------- consistency of what the getters report, honest answer first
    _consistency(task, G, m, key, res, "honest", o_h, delta)
    # ---------------- all optimal answers (E1a): per-element errors / slack inequality on the decoded solution
    cols = models.edge_cols(m)
    wcols = models.weight_cols(m)
    s = enc.solver(90000)
    s.add(enc.min_obj <= smt.q(o_h + max(delta, Fraction(1, 10 ** 7))))
    sc = _scaling(task)
    viol = []
    if kind == "lae":
        ecols = models.dict_cols(m, "edge_errors_vars")
        for (u, v_) in m.edge_indexes_basic:
            ex = _decoded_terms(enc, m, cols, wcols, (u, v_))
            f = m.G[u][v_][m.flow_attr]
            ee = enc.xs[ecols[(u, v_)]]
            if is_int:
                viol.append(z3.And(ee != smt.q(f) - ex, ee != ex - smt.q(f)))
                viol.append(ee < 0)
            else:
                viol.append(z3.Or(ee < smt.q(f) - ex - smt.q(DELTA), ee < ex - smt.q(f) - smt.q(DELTA)))
    else:
        scol = models.slack_cols(m)
        plf = task.get("plf")
        sscol = models.dict_cols(m, "scaled_slack_vars", list(range(m.k))) if plf else None
        for (u, v_, data) in m.G.edges(data=True):
            if (u, v_) in m.edges_to_ignore:
                continue
            f = data[m.flow_attr]
            ex = _decoded_terms(enc, m, cols, wcols, (u, v_))
            terms = []
            for i in range(m.k):
                x = enc.xs[cols[(u, v_, i)]]
                sl = enc.xs[(sscol if plf else scol)[i]]
                ub = lp.ub[cols[(u, v_, i)]]
                ub = int(ub) if ub is not None else 1
                terms.append(z3.If(x == 1, sl, 0) if ub <= 1 else z3.Sum([z3.If(x == c, c * sl, 0) for c in range(1, ub + 1)]))
            through = z3.Sum(terms)
            s_e = smt.q(m.edge_error_scaling.get((u, v_), 1))
            viol.append(z3.Or(s_e * (smt.q(f) - ex) > through + smt.q(delta), s_e * (ex - smt.q(f)) > through + smt.q(delta)))
    res["obligations"] += 1
    r = smt.check(s, z3.Or(viol)) if viol else "unsat"
    if r == "unsat":
        res["discharged"] += 1
    elif r == "unknown":
        res["inconclusive"] += 1
    else:
        vals = enc.values(s.model())
        res["violations"].append({"signature": f"{cls}:optimal-answer-with-inconsistent-{'errors' if kind == 'lae' else 'slacks'}",
                                  "summary": f"{task['name']}: an optimal solver answer decodes to routes whose recomputed {'errors differ from the reported ones' if kind == 'lae' else 'error exceeds the slack through the edge'}",
                                  "replay": {"kind": "inject", "task": task, "values": [str(x) for x in vals]}})
        return res
    # a solver-chosen optimal answer different from HiGHS's, decoded through the real getters
    if lp.honest_vals is not None:
        diff = [enc.xs[cols[kk]] != int(round(lp.honest_vals[cols[kk]])) for kk in cols]
        res["obligations"] += 1
        r = smt.check(s, z3.Or(diff))
        if r == "sat":
            vals = [float(x) for x in enc.values(s.model())]
            m2, _G2 = models.construct(task)
            m2.solver.solver.allVariableValues = lambda: vals
            m2.solver.solver.getObjectiveValue = lambda: float(o_h)
            m2._is_solved = True
            res["extra"]["traces_validated_against_impl"] = res["extra"].get("traces_validated_against_impl", 0) + 1
            n0 = len(res["violations"])
            _consistency(task, G, m2, key, res, "inject", o_h, delta, vals)
            if len(res["violations"]) == n0:
                res["discharged"] += 1
        elif r == "unsat":
            res["discharged"] += 1
        else:
            res["inconclusive"] += 1
    return res


def _cap_diag(task, m, lp, sp, mdl):
    """does the spec's solution need a traversal count above the LP's column upper bound?"""
    if not task["cyc"] or mdl is None:
        return ""
    try:
        cols = models.edge_cols(m)
        mults, _ws = sp.read(mdl)
        if task["node_mode"]:
            for i in range(sp.k):
                for v in sp.G.nodes():
                    visits = mdl.eval(sp.count(i, v), model_completion=True).as_long()
                    ub = lp.ub[cols[(v + ".0", v + ".1", 0)]]
                    if ub is not None and visits > ub:
                        return ":needs-traversals-above-repetition-cap"
        for mm in mults:
            for e, c in mm.items():
                ie = layers.internal_edge(e, task["node_mode"])
                ub = lp.ub[cols[(ie[0], ie[1], 0)]]
                if ub is not None and c > ub:
                    return ":needs-traversals-above-repetition-cap"
    except Exception:
        pass
    return ""


def _consistency(task, G, m, key, res, how, o_h, delta, vals=None):
    """get_solution / get_objective_value / is_valid_solution agree with what is recomputed from the returned routes"""
    kind = task["kind"]
    cls = task["cls"]
    res["obligations"] += 1
    try:
        sol_full = m.get_solution()
        if sol_full is None:
            sol_full = m._solution
        rep_obj = m.get_objective_value()
        valid = m.is_valid_solution() if kind == "lae" else True     # only C07 speaks about the model's own validity check
    except Exception as e:
        res["violations"].append({"signature": f"{cls}:getter-raised-{type(e).__name__}", "summary": f"{task['name']} [{how}]: {type(e).__name__}: {e}",
                                  "replay": {"kind": how, "task": task, "values": [str(x) for x in (vals or [])]}})
        return
    pr = []
    shape = checkers.solution_shape_problems(sol_full, key, k=m.k, exact_k=(not task["allow_empty"] and not task.get("superset") and not task["starts"] and not task["ends"]), has_slack=(kind == "mpe"))
    pr += [("shape", p) for p in shape]
    if not shape:
        errs, total, exp = recompute(task, G, sol_full, key)
        tol = delta * max(1, len(errs))
        if kind == "lae":
            if abs(Fraction(rep_obj).limit_denominator(10 ** 9) - total) > tol:
                pr.append(("objective-not-scaled-total-error" if task["scaling"] else "objective-differs-from-recomputed-error",
                           f"get_objective_value()={rep_obj}, recomputed scaled total error={float(total)}"))
            if abs(total - o_h) > tol + Fraction(1, 10 ** 6):
                pr.append(("returned-solution-not-optimal", f"recomputed error {float(total)} vs optimum {float(o_h)}"))
            ee = sol_full.get("edge_errors", {})
            for e, v in errs.items():
                ie = layers.internal_edge(e, task["node_mode"])
                if ie in ee and abs(Fraction(ee[ie]).limit_denominator(10 ** 9) - v) > tol:
                    pr.append(("edge-error-differs", f"reported error {ee[ie]} on {e}, recomputed {float(v)}"))
                    break
        else:
            if abs(Fraction(rep_obj).limit_denominator(10 ** 9) - sum(Fraction(x).limit_denominator(10 ** 9) for x in sol_full["slacks"])) > tol:
                pr.append(("objective-differs-from-slack-sum", f"get_objective_value()={rep_obj}, slacks={sol_full['slacks']}"))
            if abs(Fraction(rep_obj).limit_denominator(10 ** 9) - o_h) > tol + Fraction(1, 10 ** 6):
                pr.append(("returned-slack-not-optimal", f"slack sum {rep_obj} vs optimum {float(o_h)}"))
            # slack inequality on the returned solution
            sl = sol_full.get("scaled_slacks", sol_full["slacks"])
            sc = _scaling(task)
            for e, v in errs.items():
                thr = Fraction(0)
                for r_, s_ in zip(sol_full[key], sl):
                    cnt = r_.count(e) if task["node_mode"] else list(zip(r_[:-1], r_[1:])).count(e)
                    thr += cnt * Fraction(s_).limit_denominator(10 ** 9)
                if Fraction(sc.get(e, 1)) * v > thr + tol:
                    pr.append(("slack-inequality-violated", f"element {e}: scaled error {float(Fraction(sc.get(e, 1)) * v)} > slack through it {float(thr)}"))
                    break
        if not valid and kind == "lae":     # only C07 states that the model's own validity check accepts its optimum
            pr.append(("own-validity-check-rejects-optimum", "is_valid_solution() returned False for the model's own optimal solution"))
    if pr:
        res["violations"].append({"signature": f"{cls}:{pr[0][0]}", "summary": f"{task['name']} [{how}]: {pr[0][1]}",
                                  "replay": {"kind": how, "task": task, "values": [str(x) for x in (vals or [])], "o_h": str(o_h)}})
    else:
        res["discharged"] += 1


def _qt(ms):
    """per-query z3 budget: the quick tier caps it at 35 s (a timed-out query is counted inconclusive, never as held)"""
    import os
    return min(ms, 35000) if os.environ.get("FPVERIF_TIER", "quick") == "quick" else ms


def replay(data):
    task = data["task"]
    key = "walks" if task["cyc"] else "paths"
    res = new_result()
    if data["kind"] == "optimum":
        r = run_task(task)
        hits = [v for v in r["violations"] if "optimum" in v["signature"] or "infeasible" in v["signature"]]
        for v in hits:
            print("  replay:", v["signature"], v["summary"])
        return bool(hits)
    m, G, ok, snaps = models.build_and_solve(task)
    task = dict(task)
    task["k_resolved"] = m.k
    if not ok:
        return False
    o_h = Fraction(snaps[-1].honest_obj).limit_denominator(10 ** 6)
    delta = DELTA
    if data["kind"] == "honest":
        _consistency(task, G, m, key, res, "honest", o_h, delta)
    else:
        vals = [float(Fraction(x)) for x in data["values"]]
        if snaps[-1].violations(vals, 1e-8):
            print("  replay: injected answer infeasible for the current LP")
            return False
        m2, _ = models.construct(task)
        m2.solver.solver.allVariableValues = lambda: vals
        m2.solver.solver.getObjectiveValue = lambda: float(o_h)
        m2._is_solved = True
        _consistency(task, G, m2, key, res, "inject", o_h, delta, vals)
    for v in res["violations"]:
        print("  replay:", v["signature"], v["summary"])
    return bool(res["violations"])


RULE = ("one case = (error-model class, graph, non-negative weights, k, options); non-trivial = optimum > 0 or k >= 2; programs = captured LPs whose certified optimum is compared "
        "with the certified optimum of the independent spec (route enumeration / Euler walks)")
ASSUMPTIONS = [
    "optimum equality decided by two z3 decision queries per side (obj <= o* sat, obj < o* unsat), o* = HiGHS's optimum, itself certified on the captured LP",
    "cyclic spec: Euler multiplicity vectors with per-edge multiplicity <= max weight + 1 (a traversal count above the largest weight cannot reduce the error for integer weights >= 1; for float weights this is a stated bound)",
    "weights in {0..4} (DAG) / {0..3} (cyclic), k <= 3, DAGs <= 4 (5) nodes, digraphs <= 3 inner nodes",
    "consistency: reported objective == scaled total error recomputed from the returned routes/weights, reported per-edge errors == recomputed, is_valid_solution() accepts; checked on HiGHS's answer, on a z3-chosen different optimal answer through the real getters, and for all optimal answers on the LP (E1a)",
]


def main(tier, seed, pid=PID, kind="lae"):
    t0 = time.time()
    tasks = gen_tasks(tier, seed, kind)
    acc = core.run_tasks(run_task, tasks, deadline_s=170 if tier == "quick" else 1800)
    bounds = {"dag_nodes_max": 4 if tier == "quick" else 5, "inner_nodes_max": 3, "k_max": 3, "weights": "0..4"}
    return core.finish(pid, tier, seed, LEVEL, acc, t0, RULE, ASSUMPTIONS, bounds, replay)
