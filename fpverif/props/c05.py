"""C05 -- optimisation options never change solvability or the optimal objective."""
from __future__ import annotations

import itertools
import random
import time
from fractions import Fraction

import networkx as nx

from .. import core, families as F, hx, instances as I, models, smt
from ..core import HarnessError, new_result

PID = "C05"
LEVEL = "translation_validation"

DAG_FLAGS = ["optimize_with_safe_paths", "optimize_with_safe_sequences", "optimize_with_safe_zero_edges",
             "optimize_with_subpath_constraints_as_safe_sequences", "optimize_with_safety_as_subpath_constraints",
             "optimize_with_safety_from_largest_antichain"]
KFD_FLAGS = ["optimize_with_greedy", "optimize_with_flow_safe_paths"]
MFD_FLAGS = ["use_min_gen_set_lowerbound", "use_min_gen_set_lowerbound_partition_constraints", "use_subgraph_scanning_lowerbound", "optimize_with_guessed_weights"]
CYC_FLAGS = ["optimize_with_safe_sequences", "optimize_with_safe_sequences_allow_geq_constraints", "optimize_with_safe_sequences_fix_via_bounds",
             "optimize_with_safe_sequences_fix_zero_edges", "optimize_with_safety_as_subset_constraints", "optimize_with_max_safe_antichain_as_subset_constraints"]
MFDC_FLAGS = ["use_min_gen_set_lowerbound", "optimize_with_guessed_weights"]

FLAGS = {
    "kFlowDecomp": DAG_FLAGS + KFD_FLAGS,
    "MinFlowDecomp": DAG_FLAGS + KFD_FLAGS + MFD_FLAGS,
    "kMinPathError": DAG_FLAGS,
    "kLeastAbsErrors": DAG_FLAGS,
    "kPathCover": DAG_FLAGS,
    "MinPathCover": DAG_FLAGS,
    "kFlowDecompCycles": CYC_FLAGS,
    "MinFlowDecompCycles": CYC_FLAGS + MFDC_FLAGS,
    "kMinPathErrorCycles": CYC_FLAGS,
    "kLeastAbsErrorsCycles": CYC_FLAGS,
    "kPathCoverCycles": CYC_FLAGS,
    "MinPathCoverCycles": CYC_FLAGS,
}


def vectors(cls, tier, rng):
    fl = FLAGS[cls]
    base = {f: False for f in fl}
    out = [dict(base)]
    for f in fl:
        v = dict(base)
        v[f] = True
        out.append(v)
    out.append({})            # library defaults
    for f in fl:              # one option switched explicitly, all others at the library default
        out.append({f: True})
        out.append({f: False})
    out.append({f: True for f in fl})
    n = 6 if tier == "quick" else 40
    for _ in range(n):
        out.append({f: rng.random() < 0.5 for f in fl})
    return out


def gen_tasks(tier, seed):
    rng = random.Random(seed + 5)
    tasks = []
    dags = I.dag_graphs(tier, rng, quick_n=3, thorough_n5=6)
    if tier == "quick":
        dags = [d for d in dags if d[0] in ("diamond_shortcut", "multi_src_sink", "bubble_chain", "ladder", "star_out", "single_edge", "bowtie")] + dags[-3:]
    for name, es in dags:
        fl = I.dag_flow(es, rng)
        if fl is None:
            continue
        G = nx.DiGraph(es)
        k = min(3, max(1, len(F.dag_routes(G))))
        wedges = I.with_flow(es, fl)
        arb = I.with_flow(es, I.arbitrary_weights(es, rng, (1, 2, 3)))
        sp = rng.choice(I.contiguous_subpaths(es, 2))
        insts = [("kFlowDecomp", wedges, {"k": k, "weight_type": "int"}), ("MinFlowDecomp", wedges, {"weight_type": "int"}),
                 ("MinFlowDecomp", wedges, {"weight_type": "int", "subpath_constraints": [sp]}),
                 ("kMinPathError", arb, {"k": k, "weight_type": "int"}), ("kLeastAbsErrors", arb, {"k": min(2, k), "weight_type": "int"}),
                 ("kLeastAbsErrors", arb, {"k": k, "weight_type": "int", "subpath_constraints": [sp]}),
                 ("kPathCover", es, {"k": k}), ("MinPathCover", es, {})]
        # ignored edges (stale value off by one): options must not let ignored edges constrain the solution
        for ex in es[:2]:
            stale = [(u, v, f + 1 if (u, v) == ex else f) for (u, v, f) in wedges]
            if any(f for (u, v, f) in stale if (u, v) != ex):
                insts.append(("MinFlowDecomp", stale, {"weight_type": "int", "elements_to_ignore": [list(ex)]}))
        # fractional coverage: a 3-edge constraint whose middle edge is heavy and whose end edges are light, k = 1
        # (the best route uses only the interior edge; every 3-edge subpath in turn)
        for R in [c for c in I.contiguous_subpaths(es, 3) if len(c) == 3][: (3 if tier == "quick" else 12)]:
            lw = [(u, v, 1 if (u, v) in (R[0], R[2]) else 10) for (u, v) in es]
            for cls2 in ("kLeastAbsErrors", "kMinPathError"):
                insts.append((cls2, lw, {"k": 1, "weight_type": "int", "subpath_constraints": [R], "subpath_constraints_coverage": 0.3}))
        for cls, ed, kw in insts:
            for vec in vectors(cls, tier, rng):
                tasks.append({"name": name, "cls": cls, "edges": ed, "kwargs": kw, "vec": vec})
    digs = I.digraphs(tier, rng, quick_n=2, thorough_n=8)
    if tier == "quick":
        digs = [d for d in digs if d[0] in ("two_cycle", "nested", "parallel_inter_scc", "loop_and_cycle", "entry_two_returns", "two_entries_cycle_exit")] + digs[-2:]
    for name, es in digs:
        wf = I.walk_flow(es, rng, weights=(1, 2), max_walks=2)
        if wf is None or max(wf[0].values()) > 4:
            continue
        fl, walks, wts = wf
        wedges = I.with_flow(es, fl)
        arb = I.with_flow(es, I.arbitrary_weights(es, rng, (1, 2, 3)))
        k = len(walks)
        insts = [("kFlowDecompCycles", wedges, {"k": k, "weight_type": "int"}), ("MinFlowDecompCycles", wedges, {"weight_type": "int"}),
                 ("kMinPathErrorCycles", arb, {"k": k, "weight_type": "int"}), ("kLeastAbsErrorsCycles", arb, {"k": k, "weight_type": "int"}),
                 ("kPathCoverCycles", es, {"k": k}), ("MinPathCoverCycles", es, {})]
        for cls, ed, kw in insts:
            for vec in vectors(cls, tier, rng):
                tasks.append({"name": name, "cls": cls, "edges": ed, "kwargs": kw, "vec": vec})
    # hand-made instances beyond the enumerated sizes: a flow whose greedy decomposition is sub-optimal and contains a
    # zero-excess sub-path (flow-safe paths), and a safe walk that crosses one SCC edge twice with the cycle edges
    # inserted before it (so that column order differs from walk order; fix-via-bounds)
    greedy_subopt = [("0", "1", 7), ("0", "2", 5), ("1", "2", 7), ("2", "6", 4), ("2", "4", 5), ("2", "3", 3), ("4", "6", 5), ("3", "6", 3)]
    for cls, kw in (("MinFlowDecomp", {"weight_type": "int"}), ("kFlowDecomp", {"k": 3, "weight_type": "int"})):
        for vec in vectors(cls, tier, rng):
            tasks.append({"name": "greedy_suboptimal_zero_excess", "cls": cls, "edges": greedy_subopt, "kwargs": kw, "vec": vec})
    twice = [("a", "b", 1), ("b", "x", 1), ("y", "a", 1), ("x", "y", 2), ("s", "x", 1), ("y", "t", 1)]
    for cls, kw in (("MinFlowDecompCycles", {"weight_type": "int"}), ("kFlowDecompCycles", {"k": 1, "weight_type": "int"}), ("kLeastAbsErrorsCycles", {"k": 1, "weight_type": "int"})):
        for vec in vectors(cls, tier, rng):
            tasks.append({"name": "scc_edge_twice_in_safe_walk", "cls": cls, "edges": twice, "kwargs": kw, "vec": vec})
    # node-weighted minimum flow decompositions (the lower-bound options must cope with the connector edges of the expansion)
    for nm, es_, nf_ in (("node_path3", [("a", "b"), ("b", "c")], {"a": 5, "b": 5, "c": 5}), ("node_diamond", [("a", "b"), ("a", "c"), ("b", "d"), ("c", "d")], {"a": 5, "b": 2, "c": 3, "d": 5})):
        for cls in ("MinFlowDecomp", "MinFlowDecompCycles"):
            for vec in vectors(cls, tier, rng):
                tasks.append({"name": nm, "cls": cls, "edges": es_, "node_flow": nf_, "kwargs": {"weight_type": "int", "flow_attr_origin": "node"}, "vec": vec})
    # group by (instance, class): one task evaluates all vectors against the baseline
    groups = {}
    for t in tasks:
        key = (t["name"], t["cls"], repr(t["kwargs"]))
        groups.setdefault(key, {"name": t["name"], "cls": t["cls"], "edges": t["edges"], "node_flow": t.get("node_flow"), "kwargs": t["kwargs"], "vecs": []})
        groups[key]["vecs"].append(t["vec"])
    out = list(groups.values())
    for i, t in enumerate(out):
        t["tid"] = i
    return out


def _run_vec(task, vec):
    import flowpaths as fp
    kw = dict(task["kwargs"])
    kw["optimization_options"] = dict(vec)
    t = {"cls": task["cls"], "edges": task["edges"], "kwargs": kw, "node_flow": task.get("node_flow")}
    old = (fp.MinFlowDecomp.subgraph_lowerbound_size, fp.MinFlowDecomp.subgraph_lowerbound_shift)
    fp.MinFlowDecomp.subgraph_lowerbound_size, fp.MinFlowDecomp.subgraph_lowerbound_shift = 3, 2
    try:
        with hx.capture() as sess:
            m, _G = models.construct(t)
            ok = m.solve()
        obj = m.get_objective_value() if ok else None
        return {"solved": bool(ok), "objective": None if obj is None else float(obj), "snaps": sess.snaps, "model": m}
    except ValueError as e:
        return {"rejected": str(e)[:120]}
    except SystemExit:
        return {"raised": "SystemExit"}
    except Exception as e:
        return {"raised": f"{type(e).__name__}: {e}"[:160]}
    finally:
        fp.MinFlowDecomp.subgraph_lowerbound_size, fp.MinFlowDecomp.subgraph_lowerbound_shift = old


def run_task(task):
    res = new_result()
    cls = task["cls"]
    res["functions"] = [f"{cls} with every optimisation vector", "AbstractWalkModelDiGraph._apply_safety_optimizations/_apply_safety_optimizations_fix_zero_edges" if "Cycles" in cls else "AbstractPathModelDAG.__init__ (safe lists as subpath constraints)",
                        "SolverWrapper._apply_pending_bound_updates"]
    res["evaluations"] = len(task["vecs"])
    base = _run_vec(task, task["vecs"][0])
    if "solved" not in base:
        res["extra"]["baseline_not_constructible"] = 1
        return res
    o0 = base["objective"]
    lp0 = base["snaps"][-1] if base["snaps"] else None
    is_min_wrapper = cls in models.MIN_WRAPPERS
    for vec in task["vecs"][1:]:
        r = _run_vec(task, vec)
        res["obligations"] += 1
        res["nontrivial"] += 1 if any(vec.values()) else 0
        desc = {"cls": cls, "graph": task["name"], "edges": task["edges"], "kwargs": task["kwargs"], "options": {k: v for k, v in vec.items() if v} if vec else "defaults"}
        if "rejected" in r:
            res["discharged"] += 1        # documented conflicts raise ValueError: nothing to compare
            res["extra"]["rejected_vectors"] = res["extra"].get("rejected_vectors", 0) + 1
            continue
        if "raised" in r:
            res["violations"].append({"signature": f"{cls}:option-vector-raises:{r['raised'].split(':')[0]}:{_active(vec)}", "summary": f"{task['name']}: options {_active(vec)} -> {r['raised']}",
                                      "replay": {"task": {**task, "vecs": [task['vecs'][0], vec]}}})
            continue
        same = (r["solved"] == base["solved"]) and (o0 is None or r["objective"] is None or abs(r["objective"] - o0) <= 1e-6 * max(1, abs(o0)))
        if len(res["samples"]) < 3:
            res["samples"].append({"obligation": "same solved status and optimal objective as with all optimisations off (honest run) + LP-level equality of certified optima", "instance": desc,
                                   "baseline": [base["solved"], o0], "with_options": [r["solved"], r["objective"]]})
        if not same:
            res["violations"].append({"signature": f"{cls}:options-change-result:{_active(vec)}", "summary": f"{task['name']}: baseline solved={base['solved']} obj={o0}; with {_active(vec)} solved={r['solved']} obj={r['objective']}",
                                      "replay": {"task": {**task, "vecs": [task['vecs'][0], vec]}}})
            continue
        res["discharged"] += 1
        # LP level (all solver answers): k-models only -- same feasibility and same certified optimum
        if is_min_wrapper or lp0 is None or not r["snaps"]:
            continue
        lpc = r["snaps"][-1]
        res["extra"]["programs"] = res["extra"].get("programs", 0) + 1
        res["obligations"] += 1
        if not base["solved"]:
            rr, _ = smt.feasible(lpc)
            if rr == "unsat":
                res["discharged"] += 1
            elif rr == "unknown":
                res["inconclusive"] += 1
            else:
                res["violations"].append({"signature": f"{cls}:LP-feasible-only-with-options:{_active(vec)}", "summary": f"{task['name']}: baseline LP infeasible, LP with {_active(vec)} feasible",
                                          "replay": {"task": {**task, "vecs": [task['vecs'][0], vec]}}})
            continue
        enc = smt.Enc(lpc)
        has_obj = any(c != 0 for c in lpc.cost)
        if not has_obj:
            rr, _ = smt.feasible(lpc)
            v = "equal" if rr == "sat" else ("unknown" if rr == "unknown" else "unreachable")
        else:
            v, _m = smt.certify_optimum(enc.cons, enc.min_obj, Fraction(lp0.honest_obj).limit_denominator(10 ** 6), Fraction(1, 10 ** 6), 90000)
        if v == "equal":
            res["discharged"] += 1
        elif v == "unknown":
            res["inconclusive"] += 1
        else:
            res["extra"]["disagreements_checked"] = res["extra"].get("disagreements_checked", 0) + 1
            res["violations"].append({"signature": f"{cls}:LP-optimum-changes-with-options({v}):{_active(vec)}", "summary": f"{task['name']}: baseline optimum {lp0.honest_obj}; LP with {_active(vec)}: {v}",
                                      "replay": {"task": {**task, "vecs": [task['vecs'][0], vec]}}})
    return res


def _active(vec):
    if not vec:
        return "defaults"
    return "+".join(sorted(k.replace("optimize_with_", "") for k, v in vec.items() if v)) or "none"


def replay(data):
    task = data["task"]
    base = _run_vec(task, task["vecs"][0])
    r = _run_vec(task, task["vecs"][1])
    b = [base.get("solved"), base.get("objective")]
    o = [r.get("solved"), r.get("objective"), r.get("raised")]
    print(f"  replay: baseline {b}; with {_active(task['vecs'][1])}: {o}")
    if "raised" in r:
        return True
    if "rejected" in r:
        return False
    if b[0] != o[0]:
        return True
    if b[1] is not None and o[1] is not None and abs(b[1] - o[1]) > 1e-6 * max(1, abs(b[1])):
        return True
    # LP-level disagreement: re-run the task restricted to this vector
    res = run_task(task)
    return bool(res["violations"])


RULE = ("one case = (class, instance, option vector) compared with the all-off baseline of the same instance; non-trivial = vector with >= 1 option on; programs = captured LPs under options "
        "whose feasibility / certified optimum is compared with the baseline LP's")
ASSUMPTIONS = [
    "option vectors: all-off baseline, every single toggle, library defaults, all-on, plus seeded random vectors (full cross product only in thorough, on fewer instances); vectors the class documents as conflicting must raise ValueError and are then not compared",
    "LP-level comparison (every legal solver answer) for k-models; Min* wrappers are compared on honest results (count, solved) because their options change which LPs are built",
    "subgraph-scanning window shrunk to 3 nodes so that it triggers on small graphs",
]


def main(tier, seed):
    t0 = time.time()
    tasks = gen_tasks(tier, seed)
    acc = core.run_tasks(run_task, tasks, deadline_s=170 if tier == "quick" else 1800)
    bounds = {"instances": "curated DAGs/digraphs + a few sampled", "vectors_per_instance": len(tasks[0]["vecs"]) if tasks else 0}
    return core.finish(PID, tier, seed, LEVEL, acc, t0, RULE, ASSUMPTIONS, bounds, replay)
