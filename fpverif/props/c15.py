"""C15 -- MinGenSet and MinSetCover return true optima whenever one exists."""
from __future__ import annotations

import itertools
import random
import time
from fractions import Fraction

import z3

import flowpaths as fp
from .. import core, hx, models, smt
from ..core import new_result

PID = "C15"
LEVEL = "translation_validation"


def gen_tasks(tier, seed):
    rng = random.Random(seed + 15)
    tasks = []
    curated = [([2, 5], 10, 1), ([5], 10, 1), ([3, 6, 4], 12, 1), ([1, 2, 4], 7, 1), ([1, 2], 10, 1), ([3], 3, 1), ([2, 4, 6], 6, 2), ([1, 6, 4, 2], 3, 6), ([5, 3, 8], 8, 1), ([2, 2, 3], 7, 1), ([4], 2, 2), ([1, 3], 4, 3),
               # numbers above the total (reachable only with multiplicities) that no single value generates
               ([5], 3, 2), ([3], 2, 3), ([7], 4, 2), ([5, 3], 4, 2), ([7, 2], 3, 3)]
    for nums, tot, mult in curated:
        for wt in ("int", "float"):
            tasks.append({"kind": "genset", "numbers": nums, "total": tot, "mult": mult, "wt": wt, "partition": None})
    n = 14 if tier == "quick" else 1500
    for _ in range(n):
        k = rng.randint(1, 3)
        gens = [rng.randint(1, 5) for _ in range(k)]
        mult = rng.choice([1, 1, 2, 3])
        nums = set()
        for _ in range(rng.randint(1, 4)):
            xs = [rng.randint(0, mult) for _ in gens]
            v = sum(x * g for x, g in zip(xs, gens))
            if v > 0:
                nums.add(v)
        if not nums:
            continue
        tasks.append({"kind": "genset", "numbers": sorted(nums), "total": sum(gens), "mult": mult, "wt": rng.choice(["int", "float"]), "partition": None})
        if sum(gens) % 2 == 0 and mult == 1:
            # a number equal to half of the total (its own complement) when it is generable
            half = sum(gens) // 2
            import itertools as _it
            if any(sum(c) == half for r in range(1, len(gens) + 1) for c in _it.combinations(gens, r)):
                tasks.append({"kind": "genset", "numbers": sorted(set(nums) | {half}), "total": sum(gens), "mult": 1, "wt": "int", "partition": None})
        if mult == 1 and len(gens) >= 2:
            # a partition of the total consistent with the generating values
            cut = rng.randint(1, len(gens) - 1)
            part = [sum(gens[:cut]), sum(gens[cut:])]
            tasks.append({"kind": "genset", "numbers": sorted(nums), "total": sum(gens), "mult": 1, "wt": "int", "partition": [part]})
    # several partition constraints (they can push the optimum above the number of input numbers) and inputs that the
    # constructor shrinks (complement pairs x / total-x, the total itself, duplicates)
    for nums, tot, parts in (([5], 5, [[0, 5]]), ([2, 3], 5, [[0, 2, 3]]), ([4], 6, [[0, 6], [2, 4]]), ([5], 10, [[1, 9], [2, 8]]), ([1, 4, 6, 9], 10, [[5, 5], [3, 7]]), ([3], 10, [[1, 9], [2, 8], [4, 6]]), ([2, 8, 10], 10, [[1, 9], [3, 7]])):
        for wt in ("int", "float"):
            tasks.append({"kind": "genset", "numbers": nums, "total": tot, "mult": 1, "wt": wt, "partition": parts})
    for _ in range(6 if tier == "quick" else 400):
        gens = [rng.randint(1, 4) for _ in range(rng.randint(3, 4))]
        tot = sum(gens)
        parts = []
        for _p in range(rng.randint(2, 3)):
            perm = rng.sample(gens, len(gens))
            cut = rng.randint(1, len(gens) - 1)
            parts.append([sum(perm[:cut]), sum(perm[cut:])])
        x = sum(rng.sample(gens, rng.randint(1, 2)))
        nums = sorted({x, tot - x} - {0}) if rng.random() < 0.7 else [x]
        tasks.append({"kind": "genset", "numbers": nums, "total": tot, "mult": 1, "wt": "int", "partition": parts})
    m = 16 if tier == "quick" else 1500
    for _ in range(m):
        u = list(range(rng.randint(1, 5)))
        subsets = []
        for _ in range(rng.randint(1, 5)):
            subsets.append(sorted(rng.sample(u, rng.randint(1, len(u)))))
        weights = [rng.choice([1, 2, 3]) for _ in subsets]
        tasks.append({"kind": "setcover", "universe": u, "subsets": subsets, "weights": weights if rng.random() < 0.8 else None})
    for i, t in enumerate(tasks):
        t["tid"] = i
    return tasks


# --------------------------------------------------------------------------- MinGenSet
def genset_spec(task, k, tag="G"):
    mk = z3.Int if task["wt"] == "int" else z3.Real
    g = [mk(f"{tag}_g{i}") for i in range(k)]
    cons = [x >= 0 for x in g] + [z3.Sum(g) == task["total"]]
    for i in range(k - 1):
        cons.append(g[i] <= g[i + 1])
    for j, n in enumerate(task["numbers"]):
        terms = []
        for i in range(k):
            x = z3.Int(f"{tag}_x{i}_{j}")
            cons += [x >= 0, x <= task["mult"]]
            terms.append(z3.Sum([z3.If(x == c, c * g[i], 0) for c in range(1, task["mult"] + 1)]))
        cons.append(z3.Sum(terms) == n)
    for c, part in enumerate(task["partition"] or []):
        for i in range(k):
            ys = [z3.Int(f"{tag}_y{i}_{c}_{t}") for t in range(len(part))]
            cons += [z3.And(y >= 0, y <= 1) for y in ys] + [z3.Sum(ys) == 1]
        for t, val in enumerate(part):
            cons.append(z3.Sum([z3.If(z3.Int(f"{tag}_y{i}_{c}_{t}") == 1, g[i], 0) for i in range(k)]) == val)
    return g, cons


def genset_valid(task, sol):
    """plain check: sol (list of numbers) sums to total, every number is a sub-multiset sum with multiplicities <= mult,
    partition constraints can be realised"""
    vals = [Fraction(v) for v in sol]
    # float weights: equalities hold within the solver's feasibility tolerance (values such as 2.9999999999999987 are legal answers)
    tol = Fraction(0) if task["wt"] == "int" else Fraction(1, 10 ** 6)
    if any(v < -tol for v in vals):
        return "negative value"
    if abs(sum(vals) - Fraction(task["total"])) > tol:
        return f"values sum to {float(sum(vals))}, not total {task['total']}"
    sums = set()
    for xs in itertools.product(range(task["mult"] + 1), repeat=len(vals)):
        sums.add(sum(x * v for x, v in zip(xs, vals)))
    for n in task["numbers"]:
        if not any(abs(Fraction(n) - x) <= tol for x in sums):
            return f"number {n} is not a sub-multiset sum of {sol} with multiplicity <= {task['mult']}"
    for part in task["partition"] or []:
        ok = False
        for assign in itertools.product(range(len(part)), repeat=len(vals)):
            tot = [Fraction(0)] * len(part)
            for v, a in zip(vals, assign):
                tot[a] += v
            if all(abs(t_ - Fraction(p)) <= tol for t_, p in zip(tot, part)):
                ok = True
                break
        if not ok:
            return f"partition constraint {part} cannot be realised by {sol}"
    return None


def _mgs(task, lowerbound=1):
    return fp.MinGenSet(list(task["numbers"]), total=task["total"], weight_type=int if task["wt"] == "int" else float,
                        max_multiplicity=task["mult"], lowerbound=lowerbound, partition_constraints=task["partition"])


def _genset(task, res):
    res["functions"] = ["MinGenSet.__init__/_create_solver/solve/get_solution", "SolverWrapper.add_binary_continuous_product_constraint/add_integer_continuous_product_constraint"]
    # size bound of the reference search: without partition constraints |numbers|+1 values always suffice; with them only the
    # all-ones multiset (size = total) is always available -> search up to min(6, total) (stated bound)
    kmax = len(task["numbers"]) + 1 if not task["partition"] else min(6, max(len(task["numbers"]) + 1, int(task["total"])))
    k_ref = None
    res["obligations"] += 1
    for k in range(1, kmax + 1):
        g, cons = genset_spec(task, k)
        s = smt.solver(60000)
        s.add(cons)
        r = smt.check(s)
        if r == "unknown":
            res["inconclusive"] += 1
            return
        if r == "sat":
            k_ref = k
            wit = [str(smt.fr_of(s.model(), x)) for x in g]
            break
    if k_ref is None:
        res["extra"]["no_generating_set"] = res["extra"].get("no_generating_set", 0) + 1
        res["discharged"] += 1
        return
    res["discharged"] += 1
    res["nontrivial"] += 1 if k_ref >= 2 else 0
    desc = {k: task[k] for k in ("numbers", "total", "mult", "wt", "partition")}
    # (a) the real search
    with hx.capture() as sess:
        m = _mgs(task)
        ok = m.solve()
    sol = m.get_solution() if ok else None
    res["obligations"] += 1
    res["samples"].append({"obligation": "MinGenSet.solve(): solved, |solution| == least k with a satisfiable spec, solution valid", "instance": desc, "k_ref": k_ref, "solved": ok, "solution": sol})
    bad = None
    if not ok:
        bad = ("search-range-ends-before-k" if k_ref >= max(2, len(task["numbers"])) else "unsolved-although-generating-set-exists", f"not solved; generating set of size {k_ref} exists: {wit}")
    elif len(sol) != k_ref:
        bad = ("non-minimal" if len(sol) > k_ref else "smaller-than-reference", f"returned {sol} (size {len(sol)}), reference minimum {k_ref}: {wit}")
    else:
        why = genset_valid(task, sol)
        if why:
            bad = ("invalid-solution", why)
    if bad:
        res["violations"].append({"signature": f"MinGenSet:{bad[0]}" + _gs_diag(task, bad[0]), "summary": f"{desc}: {bad[1]}",
                                  "replay": {"kind": "genset", "task": task, "k_ref": k_ref, "witness": wit}})
    else:
        res["discharged"] += 1
    # (a') every valid lower bound (any value <= the reference minimum, 0 included) leaves the answer unchanged
    for lb in sorted({0, max(1, k_ref - 1), k_ref}):
        if lb == 1:
            continue                      # the default, decided under (a)
        ml = _mgs(task, lowerbound=lb)
        okl = ml.solve()
        res["obligations"] += 1
        soll = ml.get_solution() if okl else None
        whyl = None
        if not okl:
            whyl = f"not solved with lowerbound={lb} (status {ml.solve_statistics.get('status')}); generating set of size {k_ref} exists: {wit}"
        elif len(soll) != k_ref:
            whyl = f"lowerbound={lb}: returned {soll} (size {len(soll)}), reference minimum {k_ref}"
        else:
            whyl = genset_valid(task, soll)
        if whyl:
            res["violations"].append({"signature": f"MinGenSet:valid-lowerbound-changes-result:lowerbound={'0' if lb == 0 else 'k_ref' if lb == k_ref else 'k_ref-1'}", "summary": f"{desc}: {whyl}",
                                      "replay": {"kind": "genset", "task": task, "k_ref": k_ref, "witness": wit}})
        else:
            res["discharged"] += 1
    # (b) LP_k <=> Spec_k for every k in the search range (validates complement / zero / total removal)
    for k in range(1, min(kmax, k_ref + 1) + 1):
        mk = _mgs(task)
        mk._create_solver(k=k)
        lp = hx.snapshot_unsolved(mk.solver)
        res["extra"]["programs"] = res["extra"].get("programs", 0) + 1
        res["obligations"] += 1
        r, _ = smt.feasible(lp)
        want = "sat" if k >= k_ref else "unsat"
        if r == "unknown":
            res["inconclusive"] += 1
        elif r == want:
            res["discharged"] += 1
        else:
            res["extra"]["disagreements_checked"] = res["extra"].get("disagreements_checked", 0) + 1
            kind = "LP_k-infeasible-but-spec-sat" if want == "sat" else "LP_k-feasible-but-spec-unsat"
            res["violations"].append({"signature": f"MinGenSet:{kind}" + _gs_diag(task, kind), "summary": f"{desc}: k={k}: LP {r}, spec {want} (k_ref={k_ref}, witness {wit})",
                                      "replay": {"kind": "genset_k", "task": task, "k": k, "want": want, "k_ref": k_ref, "witness": wit}})
    # (c) integer answers within the integrality tolerance must not be truncated
    if ok and task["wt"] == "int" and sess.snaps and sess.snaps[-1].honest_vals:
        lp = sess.snaps[-1]
        vals = list(lp.honest_vals)
        names = lp.col_names
        for j, nm in enumerate(names):
            if nm.startswith("gen_set") and vals[j] >= 1:
                vals[j] = vals[j] - 4e-10
        def answers(idx, lp_, h, n=len(sess.snaps) - 1, vals=vals):
            if idx == n:
                return {"status": "kOptimal", "values": vals, "skip_native": False}
            return None
        with hx.capture(answers):
            m2 = _mgs(task)
            ok2 = m2.solve()
        res["obligations"] += 1
        res["extra"]["traces_validated_against_impl"] = res["extra"].get("traces_validated_against_impl", 0) + 1
        why = genset_valid(task, m2.get_solution()) if ok2 else "not solved"
        if why:
            res["violations"].append({"signature": "MinGenSet:integer-answer-truncated", "summary": f"{desc}: HiGHS answer with integer columns at v-4e-10 decodes to {m2.get_solution() if ok2 else None}: {why}",
                                      "replay": {"kind": "genset_trunc", "task": task}})
        else:
            res["discharged"] += 1


def _gs_diag(task, kind):
    if kind in ("LP_k-infeasible-but-spec-sat", "non-minimal", "unsolved-although-generating-set-exists") and max(task["numbers"]) > task["total"]:
        return ":number-exceeds-total(product-bound=total)"
    if kind in ("LP_k-feasible-but-spec-unsat", "invalid-solution", "smaller-than-reference") and task["mult"] > 1:
        return ":complement-removal-with-multiplicity>1"
    return ""


# --------------------------------------------------------------------------- MinSetCover
def _cover_spec(task):
    n = len(task["subsets"])
    xs = [z3.Int(f"s{i}") for i in range(n)]
    cons = [z3.And(x >= 0, x <= 1) for x in xs]
    for el in task["universe"]:
        inc = [xs[i] for i in range(n) if el in task["subsets"][i]]
        cons.append(z3.Sum(inc) >= 1 if inc else z3.BoolVal(False))
    w = task["weights"] or [1] * n
    return xs, cons, z3.Sum([w[i] * xs[i] for i in range(n)])


def _setcover(task, res):
    res["functions"] = ["MinSetCover._encode_set_cover/solve/get_solution"]
    xs, cons, obj = _cover_spec(task)
    st, opt = smt.minimise(cons, obj)
    res["obligations"] += 1
    if st == "unknown":
        res["inconclusive"] += 1
        return
    res["discharged"] += 1
    desc = {k: task[k] for k in ("universe", "subsets", "weights")}
    w = task["weights"] or [1] * len(task["subsets"])
    try:
        with hx.capture() as sess:
            m = fp.MinSetCover(task["universe"], task["subsets"], subset_weights=task["weights"])
            ok = m.solve()
    except Exception as e:
        res["obligations"] += 1
        res["violations"].append({"signature": f"MinSetCover:raises-{type(e).__name__}" + (":default-weights" if task["weights"] is None else ""),
                                  "summary": f"{desc}: {type(e).__name__}: {e}", "replay": {"kind": "setcover", "task": task, "opt": str(opt)}})
        return
    res["obligations"] += 1
    res["nontrivial"] += 1 if st == "ok" and len(task["subsets"]) >= 2 else 0
    res["samples"].append({"obligation": "MinSetCover: solved iff a cover exists; returned cover has the certified minimum weight", "instance": desc, "spec_optimum": str(opt), "solved": ok,
                           "solution": m.get_solution() if ok else None})
    if st == "infeasible":
        if ok:
            res["violations"].append({"signature": "MinSetCover:solved-without-cover", "summary": f"{desc}", "replay": {"kind": "setcover", "task": task, "opt": None}})
        else:
            res["discharged"] += 1
        return
    sol = m.get_solution() if ok else None
    bad = None
    if not ok:
        bad = "unsolved-although-cover-exists"
    else:
        covered = set()
        for i in sol:
            covered |= set(task["subsets"][i])
        if not set(task["universe"]) <= covered:
            bad = "not-a-cover"
        elif sum(w[i] for i in sol) != opt:
            bad = "non-minimum-weight"
    if bad:
        res["violations"].append({"signature": f"MinSetCover:{bad}", "summary": f"{desc}: solution {sol}, optimum {opt}", "replay": {"kind": "setcover", "task": task, "opt": str(opt)}})
        return
    res["discharged"] += 1
    # all optimal answers of the captured LP: z3 optimum equals the spec optimum; answers within tolerance decode to a cover
    lp = sess.snaps[-1]
    enc = smt.Enc(lp)
    res["extra"]["programs"] = res["extra"].get("programs", 0) + 1
    res["obligations"] += 1
    v, _ = smt.certify_optimum(enc.cons, enc.min_obj, opt)
    if v == "equal":
        res["discharged"] += 1
    elif v == "unknown":
        res["inconclusive"] += 1
    else:
        res["violations"].append({"signature": f"MinSetCover:LP-optimum-{v}", "summary": f"{desc}: LP optimum differs from spec optimum {opt}", "replay": {"kind": "setcover", "task": task, "opt": str(opt)}})
    vals = [v_ - 4e-10 if v_ > 0.5 else v_ for v_ in lp.honest_vals]
    def answers(idx, lp_, h, vals=vals):
        return {"status": "kOptimal", "values": vals, "skip_native": False}
    with hx.capture(answers):
        m2 = fp.MinSetCover(task["universe"], task["subsets"], subset_weights=task["weights"])
        ok2 = m2.solve()
    res["obligations"] += 1
    res["extra"]["traces_validated_against_impl"] = res["extra"].get("traces_validated_against_impl", 0) + 1
    sol2 = m2.get_solution() if ok2 else None
    cov2 = set()
    for i in sol2 or []:
        cov2 |= set(task["subsets"][i])
    if not ok2 or not set(task["universe"]) <= cov2:
        res["violations"].append({"signature": "MinSetCover:binary-answer-compared-with-==1", "summary": f"{desc}: HiGHS answer with selected columns at 1-4e-10 decodes to {sol2}",
                                  "replay": {"kind": "setcover_tol", "task": task}})
    else:
        res["discharged"] += 1


def run_task(task):
    res = new_result()
    res["evaluations"] = 1
    if task["kind"] == "genset":
        _genset(task, res)
    else:
        _setcover(task, res)
    return res


def replay(data):
    task = data["task"]
    res = new_result()
    if task["kind"] == "genset":
        if data["kind"] in ("genset", "genset_k") and genset_valid(task, [Fraction(x) for x in data["witness"]]):
            print("  replay: spec witness rejected by the plain checker")
            return False
        _genset(task, res)
    else:
        _setcover(task, res)
    for v in res["violations"]:
        print("  replay:", v["signature"], v["summary"][:300])
    return bool(res["violations"])


RULE = ("one case = a MinGenSet instance (numbers, total, multiplicity, type, partition constraints) or a MinSetCover instance; non-trivial = reference optimum >= 2 elements / >= 2 subsets; "
        "programs = captured LPs compared with the direct z3 definition")
ASSUMPTIONS = [
    "MinGenSet spec: k non-negative values of the requested type summing to total, every input number = sum_i x_i*g_i with integer 0 <= x_i <= max_multiplicity, partition constraints as exact 1-of-t assignments; minimum certified by unsat for all smaller k",
    "instances: number lists built from <= 3 generating values in 1..5 (so a generating set exists), multiplicity <= 3 (plus curated lists); set-cover universes <= 5 elements, <= 5 subsets, weights 1..3",
    "tolerance obligations inject HiGHS's own optimal answer with integer columns moved by 4e-10 (< the 1e-9 integrality tolerance), which HiGHS may legally return",
]


def main(tier, seed):
    t0 = time.time()
    tasks = gen_tasks(tier, seed)
    acc = core.run_tasks(run_task, tasks, deadline_s=150 if tier == "quick" else 1200)
    bounds = {"numbers_max": 4, "generators": "<=3 values in 1..5", "multiplicity_max": 3, "universe_max": 5, "subsets_max": 5}
    return core.finish(PID, tier, seed, LEVEL, acc, t0, RULE, ASSUMPTIONS, bounds, replay)
