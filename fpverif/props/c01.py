"""C01 -- returned paths/walks are real source-to-sink routes of the caller's graph."""
from __future__ import annotations

import random
import time

import networkx as nx
import z3

from .. import checkers, core, families as F, hx, instances as I, layers, models, smt
from ..core import HarnessError, new_result

PID = "C01"
LEVEL = "model_checking"


# --------------------------------------------------------------------------- task generation
def _k_for(es, extra=0):
    G = nx.DiGraph(es)
    return max(1, min(3, len(F.dag_routes(G)) if nx.is_directed_acyclic_graph(G) else 2)) + extra


def gen_tasks(tier, seed):
    rng = random.Random(seed)
    tasks = []
    dags = I.dag_graphs(tier, rng, quick_n=6, thorough_n5=150)
    for name, es in dags:
        fl = I.dag_flow(es, rng)
        if fl is None:
            continue
        G = nx.DiGraph(es)
        nroutes = len(F.dag_routes(G))
        k = min(3, max(1, nroutes))
        wedges = I.with_flow(es, fl)
        arb = I.with_flow(es, I.arbitrary_weights(es, rng))
        inner = [v for v in G.nodes() if G.in_degree(v) > 0 and G.out_degree(v) > 0]
        base = {"name": name, "starts": [], "ends": []}
        nog = {"optimize_with_greedy": False}
        tasks.append({**base, "cls": "kFlowDecomp", "edges": wedges, "kwargs": {"k": k, "weight_type": "int", "optimization_options": nog}})
        # guessed-weights shortcut of the minimum search (non-default), with and without the greedy shortcut
        for oo in ({"optimize_with_guessed_weights": True}, {"optimize_with_guessed_weights": True, "optimize_with_greedy": False}):
            tasks.append({**base, "cls": "MinFlowDecomp", "edges": wedges, "kwargs": {"weight_type": "int", "optimization_options": dict(oo)}})
        # greedy shortcut (default options) with k at, one above and three above the number of routes of the flow: the padded solution
        for kk in (k, k + 1, k + 3):
            tasks.append({**base, "cls": "kFlowDecomp", "edges": wedges, "kwargs": {"k": kk, "weight_type": "int"}})
        tasks.append({**base, "cls": "kFlowDecomp", "edges": wedges, "kwargs": {"k": k + 2, "weight_type": "float"}})
        tasks.append({**base, "cls": "MinFlowDecomp", "edges": wedges, "kwargs": {"weight_type": "int", "optimization_options": nog}})
        tasks.append({**base, "cls": "MinFlowDecomp", "edges": wedges, "kwargs": {"weight_type": "float"}})
        tasks.append({**base, "cls": "kLeastAbsErrors", "edges": arb, "kwargs": {"k": min(2, k), "weight_type": "int"}})
        tasks.append({**base, "cls": "kMinPathError", "edges": arb, "kwargs": {"k": None, "weight_type": "int"}})
        tasks.append({**base, "cls": "kPathCover", "edges": es, "kwargs": {"k": k}})
        tasks.append({**base, "cls": "MinPathCover", "edges": es, "kwargs": {}})
        tasks.append({**base, "cls": "MinPathCover", "edges": es, "kwargs": {"cover_type": "node"}, "node_mode": True})
        tasks.append({**base, "cls": "kPathCover", "edges": es, "kwargs": {"k": k, "cover_type": "node"}, "node_mode": True})
        # allow empty paths
        tasks.append({**base, "cls": "kLeastAbsErrors", "edges": arb, "allow_empty": True,
                      "kwargs": {"k": k + 1, "weight_type": "int", "optimization_options": {"allow_empty_paths": True}}})
        # additional starts / ends
        if inner:
            v = rng.choice(inner)
            w = rng.choice(inner)
            for cls, ed in (("kLeastAbsErrors", arb), ("kMinPathError", arb)):
                tasks.append({**base, "cls": cls, "edges": ed, "starts": [v], "ends": [w],
                              "kwargs": {"k": k + 1, "weight_type": "int", "additional_starts": [v], "additional_ends": [w]}})
            tasks.append({**base, "cls": "kPathCover", "edges": es, "starts": [v], "ends": [w],
                          "kwargs": {"k": k + 1, "additional_starts": [v], "additional_ends": [w]}})
            tasks.append({**base, "cls": "MinPathCover", "edges": es, "starts": [v], "ends": [],
                          "kwargs": {"additional_starts": [v]}})
        # node weighted flow decomposition / errors
        routes = F.dag_routes(G)
        ws = [rng.choice((1, 2, 3)) for _ in routes[:3]]
        nf = I.node_weights_from_routes(G, routes[:3], ws)
        if all(nf[v] > 0 for v in G.nodes()):
            tasks.append({**base, "cls": "MinFlowDecomp", "edges": es, "node_flow": nf, "node_mode": True,
                          "kwargs": {"flow_attr_origin": "node", "weight_type": "int"}})
            tasks.append({**base, "cls": "kFlowDecomp", "edges": es, "node_flow": nf, "node_mode": True,
                          "kwargs": {"flow_attr_origin": "node", "weight_type": "int", "k": min(3, len(routes))}})
        tasks.append({**base, "cls": "kMinPathError", "edges": es, "node_flow": {v: rng.choice((0, 1, 2, 3)) + 1 for v in G.nodes()},
                      "node_mode": True, "kwargs": {"flow_attr_origin": "node", "weight_type": "int", "k": k}})
        # ignore + constraints
        e0 = rng.choice(es)
        tasks.append({**base, "cls": "kMinPathError", "edges": arb, "kwargs": {"k": k, "weight_type": "int", "elements_to_ignore": [e0]}})
        sp = rng.choice(I.contiguous_subpaths(es, 2))
        tasks.append({**base, "cls": "kPathCover", "edges": es, "kwargs": {"k": k, "subpath_constraints": [sp]}})
        tasks.append({**base, "cls": "kFlowDecomp", "edges": wedges, "kwargs": {"k": k + 1, "weight_type": "int", "subpath_constraints": [sp], "optimization_options": nog}})

    for name, es in I.digraphs(tier, rng, quick_n=4, thorough_n=120):
        wf = I.walk_flow(es, rng)
        if wf is None:
            continue
        fl, walks, wts = wf
        if max(fl.values()) > 6:
            continue
        k = len(walks)
        wedges = I.with_flow(es, fl)
        arb = I.with_flow(es, I.arbitrary_weights(es, rng, (1, 2, 3)))
        base = {"name": name, "starts": [], "ends": []}
        G = nx.DiGraph(es)
        tasks.append({**base, "cls": "kFlowDecompCycles", "edges": wedges, "kwargs": {"k": k, "weight_type": "int"}})
        tasks.append({**base, "cls": "MinFlowDecompCycles", "edges": wedges, "kwargs": {"weight_type": "int"}})
        tasks.append({**base, "cls": "kLeastAbsErrorsCycles", "edges": arb, "kwargs": {"k": min(2, k), "weight_type": "int"}})
        tasks.append({**base, "cls": "kMinPathErrorCycles", "edges": arb, "kwargs": {"k": k, "weight_type": "int"}})
        tasks.append({**base, "cls": "kPathCoverCycles", "edges": es, "kwargs": {"k": k}})
        tasks.append({**base, "cls": "MinPathCoverCycles", "edges": es, "kwargs": {}})
        tasks.append({**base, "cls": "MinPathCoverCycles", "edges": es, "kwargs": {"cover_type": "node"}, "node_mode": True})
        tasks.append({**base, "cls": "kLeastAbsErrorsCycles", "edges": arb, "allow_empty": True,
                      "kwargs": {"k": k + 1, "weight_type": "int", "optimization_options": {"allow_empty_walks": True}}})
        inner = [v for v in G.nodes() if v not in ("s", "t", "r", "u")]
        if inner:
            v, w = rng.choice(inner), rng.choice(inner)
            tasks.append({**base, "cls": "kMinPathErrorCycles", "edges": arb, "starts": [v], "ends": [w],
                          "kwargs": {"k": k + 1, "weight_type": "int", "additional_starts": [v], "additional_ends": [w]}})
            tasks.append({**base, "cls": "kPathCoverCycles", "edges": es, "starts": [v], "ends": [w],
                          "kwargs": {"k": k + 1, "additional_starts": [v], "additional_ends": [w]}})
    # empty layers allowed (the option that the given-weights searches switch on): every cyclic class, on every curated graph
    # with several sources or sinks (always, not sampled), with and without safe sequences
    for name, es in F.CURATED_DIGRAPHS.items():
        G = nx.DiGraph(es)
        if sum(1 for v in G if G.in_degree(v) == 0) < 2 and sum(1 for v in G if G.out_degree(v) == 0) < 2:
            continue
        wf = I.walk_flow(es, rng)
        if wf is None:
            continue
        fl, walks, wts = wf
        k = len(walks)
        wedges = I.with_flow(es, fl)
        arb = I.with_flow(es, I.arbitrary_weights(es, rng, (1, 2, 3)))
        base = {"name": name, "starts": [], "ends": [], "allow_empty": True}
        for oo in ({"allow_empty_walks": True}, {"allow_empty_walks": True, "optimize_with_safe_sequences": False}):
            tasks.append({**base, "cls": "kFlowDecompCycles", "edges": wedges, "kwargs": {"k": k + 1, "weight_type": "int", "optimization_options": dict(oo)}})
            tasks.append({**base, "cls": "kLeastAbsErrorsCycles", "edges": arb, "kwargs": {"k": 1, "weight_type": "int", "optimization_options": dict(oo)}})
            tasks.append({**base, "cls": "kMinPathErrorCycles", "edges": arb, "kwargs": {"k": 2, "weight_type": "int", "optimization_options": dict(oo)}})
            tasks.append({**base, "cls": "kPathCoverCycles", "edges": es, "kwargs": {"k": 2, "optimization_options": dict(oo)}})
    for name, es in F.CURATED_DAGS.items():
        G = nx.DiGraph(es)
        if sum(1 for v in G if G.in_degree(v) == 0) < 2 and sum(1 for v in G if G.out_degree(v) == 0) < 2:
            continue
        arb = I.with_flow(es, I.arbitrary_weights(es, rng, (1, 2, 3)))
        base = {"name": name, "starts": [], "ends": [], "allow_empty": True}
        for oo in ({"allow_empty_paths": True}, {"allow_empty_paths": True, "optimize_with_safe_paths": False}):
            tasks.append({**base, "cls": "kLeastAbsErrors", "edges": arb, "kwargs": {"k": 1, "weight_type": "int", "optimization_options": dict(oo)}})
            tasks.append({**base, "cls": "kMinPathError", "edges": arb, "kwargs": {"k": 2, "weight_type": "int", "optimization_options": dict(oo)}})
    # a node whose only incoming edge is its own self loop (not a source: walks may not start there), next to a real source;
    # classes that reject such input are skipped by the check, the error models accept it
    for name, wes in (("loop_only_incoming", [("s", "t", 1), ("u", "u", 2), ("u", "t", 1)]), ("loop_only_outgoing", [("s", "t", 1), ("s", "v", 1), ("v", "v", 2)])):
        for cls in ("kLeastAbsErrorsCycles", "kMinPathErrorCycles", "kFlowDecompCycles", "kPathCoverCycles"):
            kw = {"k": 2} if cls == "kPathCoverCycles" else {"k": 2, "weight_type": "int"}
            tasks.append({"name": name, "starts": [], "ends": [], "cls": cls, "edges": wes if cls != "kPathCoverCycles" else [(u, v) for (u, v, _f) in wes], "kwargs": kw})
    # node-weighted graphs in which a route is a single node (a node that is both source and sink)
    for name, nodes, es, nf, k in (("one_node", ["a"], [], {"a": 3}, 1), ("two_isolated", ["a", "b"], [], {"a": 3, "b": 2}, 2),
                                   ("edge_plus_isolated", ["a", "b", "c"], [("a", "b")], {"a": 2, "b": 2, "c": 5}, 2)):
        base = {"name": name, "starts": [], "ends": [], "nodes": nodes, "edges": es, "node_flow": nf, "node_mode": True}
        for cls in ("kFlowDecomp", "kMinPathError", "kLeastAbsErrors"):
            tasks.append({**base, "cls": cls, "kwargs": {"k": k, "weight_type": "int", "flow_attr_origin": "node"}})
        tasks.append({**base, "cls": "MinFlowDecomp", "kwargs": {"weight_type": "int", "flow_attr_origin": "node"}})
        tasks.append({**base, "cls": "kPathCover", "node_flow": None, "kwargs": {"k": k, "cover_type": "node"}})
        tasks.append({**base, "cls": "MinPathCover", "node_flow": None, "kwargs": {"cover_type": "node"}})
        for cls in ("kFlowDecompCycles", "kMinPathErrorCycles", "kLeastAbsErrorsCycles"):
            tasks.append({**base, "cls": cls, "kwargs": {"k": k, "weight_type": "int", "flow_attr_origin": "node"}})
        tasks.append({**base, "cls": "MinFlowDecompCycles", "kwargs": {"weight_type": "int", "flow_attr_origin": "node"}})
        tasks.append({**base, "cls": "kPathCoverCycles", "node_flow": None, "kwargs": {"k": k, "cover_type": "node"}})
        tasks.append({**base, "cls": "MinPathCoverCycles", "node_flow": None, "kwargs": {"cover_type": "node"}})
    # node-weighted graphs whose node names contain dots, one name being the dotted prefix of another ("1" / "1.1"), and names that
    # themselves end in ".0" / ".1" like the halves of an expanded node: the translation back to the caller's names must be exact
    for name, nodes, es, nf, k in (("dotted_diamond", ["1", "1.1", "1.2", "2"], [("1", "1.1"), ("1", "1.2"), ("1.1", "2"), ("1.2", "2")], {"1": 3, "1.1": 2, "1.2": 1, "2": 3}, 2),
                                   ("dotted_halves", ["a", "a.0", "a.1", "a.0.1"], [("a", "a.0"), ("a.0", "a.1"), ("a", "a.1"), ("a.1", "a.0.1")], {"a": 3, "a.0": 1, "a.1": 3, "a.0.1": 3}, 2)):
        base = {"name": name, "starts": [], "ends": [], "nodes": nodes, "edges": es, "node_flow": nf, "node_mode": True}
        for cls in ("kFlowDecomp", "kMinPathError", "kLeastAbsErrors", "kFlowDecompCycles", "kMinPathErrorCycles"):
            tasks.append({**base, "cls": cls, "kwargs": {"k": k, "weight_type": "int", "flow_attr_origin": "node"}})
        tasks.append({**base, "cls": "MinFlowDecomp", "kwargs": {"weight_type": "int", "flow_attr_origin": "node"}})
        tasks.append({**base, "cls": "MinPathCover", "node_flow": None, "kwargs": {"cover_type": "node"}})
        tasks.append({**base, "cls": "MinPathCoverCycles", "node_flow": None, "kwargs": {"cover_type": "node"}})
    for i, t in enumerate(tasks):
        t["tid"] = i
    return tasks


# --------------------------------------------------------------------------- the task
def _sol_key(cls):
    return "walks" if cls in models.CYCLIC else "paths"


def _honest_problems(task, m, G):
    """plain checker on what the public API returns after an honest solve"""
    cls = task["cls"]
    key = _sol_key(cls)
    sol = m.get_solution()
    if sol is None:
        sol = getattr(m, "_solution", None)
    probs = []
    k = getattr(m, "k", None) if cls not in models.MIN_WRAPPERS else None
    no_extra = not task["starts"] and not task["ends"]
    allow_empty = task.get("allow_empty", False)
    has_slack = "MinPathError" in cls
    probs += checkers.solution_shape_problems(sol, key, k=k, exact_k=(k is not None and no_extra and not allow_empty), has_slack=has_slack)
    if probs:
        return probs, sol
    simple = cls not in models.CYCLIC
    for r in sol[key]:
        if len(r) == 0:
            if not allow_empty:
                probs.append("empty route although empty routes are not allowed")
            continue
        probs += checkers.route_problems(G, r, task["starts"], task["ends"], simple=simple)
    return probs, sol


def _inner(task, m):
    cls = task["cls"]
    if cls in ("MinFlowDecomp", "MinFlowDecompCycles"):
        return getattr(m, "fd_model", None)
    if cls in ("MinPathCover", "MinPathCoverCycles"):
        return getattr(m, "model", None)
    return m


def _optimality(enc, lp):
    if any(c != 0 for c in lp.cost) and lp.honest_obj is not None:
        return [enc.min_obj <= smt.q(round(lp.honest_obj * 2) / 2 if abs(lp.honest_obj * 2 - round(lp.honest_obj * 2)) < 1e-6 else lp.honest_obj) + smt.q(1e-6)]
    return []


def _inject_and_decode(inner, vals):
    inner.solver.solver.allVariableValues = lambda: vals
    inner._solution = None
    inner.edge_vars_sol = {}
    inner._is_solved = True
    inner.get_solution()
    sol = inner._solution
    inner.solver.solver.__dict__.pop("allVariableValues", None)
    return sol


def run_task(task):
    res = new_result()
    cls = task["cls"]
    res["functions"] = [f"{cls}.__init__/solve/get_solution", "AbstractPathModelDAG._encode_paths/get_solution_paths"
                        if cls not in models.CYCLIC else "AbstractWalkModelDiGraph._encode_walks/get_solution_walks",
                        "AbstractSourceSinkGraph._augment_with_source_sink", "NodeExpandedDiGraph.get_condensed_paths"]
    res["evaluations"] = 1
    try:
        m, G, ok, snaps = models.build_and_solve(task)
    except Exception as e:  # constructor/solve raised: no solved model, nothing for C01 to say (C19 owns this)
        res["extra"]["raised_instead_of_solving"] = 1
        res["extra"]["raised_kinds"] = [f"{task['cls']}:{type(e).__name__}"]
        return res
    desc = {"cls": cls, "graph": task["name"], "edges": task["edges"], "kwargs": task["kwargs"]}
    if not ok:
        # C01 speaks about solved models only
        res["extra"]["unsolved_instances"] = 1
        return res
    # (d) honest output against the caller's graph
    probs, sol = _honest_problems(task, m, G)
    res["obligations"] += 1
    if probs:
        res["violations"].append({
            "signature": f"{cls}:honest-output:{_classify(probs)}",
            "summary": f"{task['name']}: {probs[0]}",
            "replay": {"kind": "honest", "task": task},
        })
    else:
        res["discharged"] += 1
    inner = _inner(task, m)
    if inner is None or not snaps or getattr(inner, "external_solution_paths", None) is not None or not hasattr(inner, "solver"):
        res["extra"]["no_lp_instances"] = 1
        return res
    lp = snaps[-1]
    if lp.ncol != inner.solver.solver.numVariables:
        raise HarnessError("last snapshot does not belong to the accepted model")
    bad = models.check_honest_against_lp(lp)
    if bad:
        raise HarnessError(f"translator validation failed: honest HiGHS answer violates translated LP: {bad[:3]}")
    _tolerance_obligation(task, m, inner, G, lp, res)
    enc = smt.Enc(lp)
    cols = models.edge_cols(inner)
    s = enc.solver(60000)
    s.add(_optimality(enc, lp))
    allow_empty = bool(getattr(inner, "allow_empty_paths", False) or getattr(inner, "allow_empty_walks", False))
    k = inner.k
    res["nontrivial"] += 1 if (k >= 2 and lp.ncol > 8) else 0
    cyc = cls in models.CYCLIC
    if not cyc:
        st_routes = [p for p in nx.all_simple_paths(inner.G, inner.G.source, inner.G.sink)]
        inds = [set(zip(p[:-1], p[1:])) for p in st_routes]
        viol = []
        for i in range(k):
            xi = layers.x_of(enc, cols, inner, i)
            viol.append(layers.dag_layer_not_admissible(xi, inds, allow_empty))
        res["obligations"] += 1
        r = smt.check(s, z3.Or(viol))
        smp = {"obligation": "exists optimal LP answer with a layer that is no s-t path of the augmented graph", "instance": desc, "lp_cols": lp.ncol, "lp_rows": lp.nrow, "verdict": r}
        res["samples"].append(smp)
        if r == "unsat":
            res["discharged"] += 1
        elif r == "unknown":
            res["inconclusive"] += 1
        else:
            vals = enc.values(s.model())
            res["violations"].append({
                "signature": f"{cls}:lp-admits-non-path-layer",
                "summary": f"{task['name']}: a legal solver answer has a layer that is not an s-t path",
                "replay": {"kind": "inject", "task": task, "values": [str(v) for v in vals]},
            })
            return res
        # stage 2: every route, placed in layer 0 by the solver, decodes to itself and is admissible for the caller
        user_inner_G, node_mode = _decode_reference_graph(task, m, inner, G)
        for p, ind in zip(st_routes, inds):
            xi = layers.x_of(enc, cols, inner, 0)
            res["obligations"] += 1
            r = smt.check(s, layers.dag_layer_is(xi, ind))
            if r == "unknown":
                res["inconclusive"] += 1
                continue
            if r == "unsat":
                res["discharged"] += 1
                continue
            vals = [float(v) for v in enc.values(s.model())]
            sol2 = _inject_and_decode(inner, vals)
            res["extra"]["traces_validated_against_impl"] = res["extra"].get("traces_validated_against_impl", 0) + 1
            got = sol2["paths"][0]
            want = _strip(p[1:-1], inner)
            pr = []
            if got != want:
                pr.append(f"layer decoded to {got}, solver chose {want}")
            pr += checkers.route_problems(user_inner_G, got, *_starts_ends_for_inner(task, m, inner), simple=True)
            if pr:
                res["violations"].append({
                    "signature": f"{cls}:decode:{_classify(pr)}",
                    "summary": f"{task['name']}: {pr[0]}",
                    "replay": {"kind": "inject", "task": task, "values": [str(v) for v in vals]},
                })
            else:
                res["discharged"] += 1
    else:
        viol = []
        for i in range(k):
            xi = layers.x_of(enc, cols, inner, i)
            viol.append(layers.walk_layer_not_walk(xi, inner, allow_empty, f"L{i}", connectivity=False))
        res["obligations"] += 1
        r = smt.check(s, z3.Or(viol))
        res["samples"].append({"obligation": "exists optimal LP answer with a layer that is unbalanced at an inner node or does not leave the source exactly once (connectivity of the layer is C02/C14 business: a disconnected closed part is dropped by the decoder, which leaves a valid walk)", "instance": desc, "lp_cols": lp.ncol, "lp_rows": lp.nrow, "verdict": r})
        if r == "unsat":
            res["discharged"] += 1
        elif r == "unknown":
            res["inconclusive"] += 1
        else:
            vals = enc.values(s.model())
            res["violations"].append({
                "signature": f"{cls}:lp-admits-non-walk-layer",
                "summary": f"{task['name']}: a legal solver answer has a layer that is not one connected s-t walk",
                "replay": {"kind": "inject", "task": task, "values": [str(v) for v in vals]},
            })
            return res
        # augmentation must be exactly: source -> sources/starts, sinks/ends -> sink (checked against the caller's graph)
        res["obligations"] += 1
        pr = _augmentation_problems(task, m, inner, G)
        if pr:
            res["violations"].append({"signature": f"{cls}:augmentation", "summary": f"{task['name']}: {pr[0]}",
                                      "replay": {"kind": "honest", "task": task}})
        else:
            res["discharged"] += 1
    return res


def _tolerance_obligation(task, m, inner, G, lp, res):
    """HiGHS may report an integer column anywhere within its 1e-9 integrality tolerance: the honest answer with every
    integer column moved by 1e-11 (down if >= 1, up otherwise; rows then stay within the 1e-9 feasibility tolerance) is a legal answer and must decode to the same valid routes"""
    if lp.honest_vals is None:
        return
    for direction in (-1, +1):
        vals = []
        for j, v in enumerate(lp.honest_vals):
            if lp.is_int[j]:
                r = round(v)
                vals.append(r + direction * 1e-11 if (direction < 0 and r >= 1) or (direction > 0) else float(r))
            else:
                vals.append(v)
        res["obligations"] += 1
        res["extra"]["traces_validated_against_impl"] = res["extra"].get("traces_validated_against_impl", 0) + 1
        try:
            sol = _inject_and_decode(inner, vals)
        except Exception as e:
            res["violations"].append({"signature": f"{task['cls']}:tolerance-answer-decode-raises-{type(e).__name__}", "summary": f"{task['name']}: {type(e).__name__}: {e}",
                                      "replay": {"kind": "inject", "task": task, "values": [repr(v) for v in vals]}})
            continue
        key = _sol_key(task["cls"])
        refG, _nm = _decode_reference_graph(task, m, inner, G)
        st, en = _starts_ends_for_inner(task, m, inner)
        allow_empty = bool(getattr(inner, "allow_empty_paths", False) or getattr(inner, "allow_empty_walks", False))
        pr = []
        for r_ in sol[key]:
            if len(r_) == 0:
                if not allow_empty:
                    pr.append("empty route although empty routes are not allowed")
                continue
            pr += checkers.route_problems(refG, r_, st, en, simple=task["cls"] not in models.CYCLIC)
        if pr:
            res["violations"].append({"signature": f"{task['cls']}:tolerance-answer:{_classify(pr)}", "summary": f"{task['name']}: integer columns at v{'-' if direction < 0 else '+'}1e-11: {pr[0]}",
                                      "replay": {"kind": "inject", "task": task, "values": [repr(v) for v in vals]}})
        else:
            res["discharged"] += 1


def _classify(probs):
    p = probs[0]
    if "not a node of the input graph" in p:
        return "foreign-node"
    if "not an edge" in p:
        return "non-edge"
    if "neither a source" in p or "neither a sink" in p:
        return "bad-endpoint"
    if "repeats" in p:
        return "not-simple"
    if "routes returned" in p:
        return "count"
    if "decoded to" in p:
        return "decode-mismatch"
    return "shape"


def _decode_reference_graph(task, m, inner, G):
    """graph in whose names the *inner* model answers: the caller's graph for k-models (condensed when in
    node mode); for Min* wrappers the graph object the wrapper forwarded."""
    if inner is m:
        return G, task.get("node_mode", False)
    return inner.G_internal if hasattr(inner, "G_internal") else G, False


def _starts_ends_for_inner(task, m, inner):
    if inner is m:
        return task["starts"], task["ends"]
    # wrapper forwarded (possibly expanded) starts/ends
    st = [x for x in getattr(m, "additional_starts", []) or []]
    en = [x for x in getattr(m, "additional_ends", []) or []]
    if task.get("node_mode"):
        st = [v + ".0" if not v.endswith(".0") else v for v in st]
        en = [v + ".1" if not v.endswith(".1") else v for v in en]
    return st, en


def _strip(path, inner):
    if getattr(inner, "flow_attr_origin", getattr(inner, "cover_type", "edge")) == "node":
        return [v[:-2] for v in path[::2]]
    return list(path)


def _augmentation_problems(task, m, inner, G):
    if inner is not m:
        return []
    node_mode = task.get("node_mode", False)
    H = inner.G
    exp = nx.DiGraph()
    if node_mode:
        for v in G.nodes():
            exp.add_edge(v + ".0", v + ".1")
        for (u, v) in G.edges():
            exp.add_edge(u + ".1", v + ".0")
        st = {v + ".0" for v in G.nodes() if G.in_degree(v) == 0 or v in task["starts"]}
        en = {v + ".1" for v in G.nodes() if G.out_degree(v) == 0 or v in task["ends"]}
    else:
        exp.add_edges_from(G.edges())
        exp.add_nodes_from(G.nodes())
        st = {v for v in G.nodes() if G.in_degree(v) == 0 or v in task["starts"]}
        en = {v for v in G.nodes() if G.out_degree(v) == 0 or v in task["ends"]}
    pr = []
    core_edges = {(u, v) for (u, v) in H.edges() if u != H.source and v != H.sink}
    if core_edges != set(exp.edges()):
        pr.append(f"internal graph edges differ from the caller's graph: {sorted(core_edges ^ set(exp.edges()))[:3]}")
    if set(H.successors(H.source)) != st:
        pr.append(f"synthetic source wired to {sorted(H.successors(H.source))}, expected {sorted(st)}")
    if set(H.predecessors(H.sink)) != en:
        pr.append(f"synthetic sink wired from {sorted(H.predecessors(H.sink))}, expected {sorted(en)}")
    return pr


# --------------------------------------------------------------------------- replay
def replay(data):
    import warnings
    warnings.filterwarnings("ignore")
    task = data["task"]
    if data["kind"] == "honest":
        m, G, ok, snaps = models.build_and_solve(task)
        if not ok:
            return False
        probs, _ = _honest_problems(task, m, G)
        if not probs and task["cls"] in models.CYCLIC:
            probs = _augmentation_problems(task, m, _inner(task, m), G)
        if probs:
            print("  replay:", probs[0])
        return bool(probs)
    if data["kind"] == "inject":
        from fractions import Fraction
        vals = [float(Fraction(v)) if "/" in v else float(v) for v in data["values"]]
        # the accepted model is the last one optimised: inject into it
        state = {}

        def answers(idx, lp, h):
            state["last"] = (idx, lp)
            return None
        m, G, ok, snaps = models.build_and_solve(task)
        inner = _inner(task, m)
        lp = snaps[-1]
        if lp.violations(vals, 1e-9):
            print("  replay: injected answer is not feasible for the current LP")
            return False
        try:
            sol = _inject_and_decode(inner, vals)
        except Exception as e:  # decoding a legal answer must not crash either
            print("  replay: decode raised", type(e).__name__, e)
            return True
        key = _sol_key(task["cls"])
        refG, _nm = _decode_reference_graph(task, m, inner, G)
        st, en = _starts_ends_for_inner(task, m, inner)
        allow_empty = bool(getattr(inner, "allow_empty_paths", False) or getattr(inner, "allow_empty_walks", False))
        for r in sol[key]:
            if len(r) == 0 and allow_empty:
                continue
            pr = checkers.route_problems(refG, r, st, en, simple=task["cls"] not in models.CYCLIC)
            if pr:
                print("  replay:", pr[0], "route", r)
                return True
        return False
    return False


RULE = ("one case = (model class, graph, weights, options) built with the real constructor; non-trivial = accepted LP has "
        ">= 2 layers and > 8 columns; obligations = z3 queries over all optimal answers of the captured LP plus per-route "
        "decode checks through the real get_solution()")
ASSUMPTIONS = [
    "HiGHS returns, with status kOptimal, some assignment that satisfies the captured LP exactly on integer columns and is optimal (objective <= honest optimum + 1e-6)",
    "graph topology, k and options are enumerated (bounds below), LP columns are symbolic",
    "x columns are located through the documented edge_vars dictionary",
    "decode of walk layers is covered by C14; here walk layers are shown to be Euler vectors of one connected s-t walk",
    "Gurobi back end not modelled",
]


def main(tier, seed):
    t0 = time.time()
    tasks = gen_tasks(tier, seed)
    acc = core.run_tasks(run_task, tasks, deadline_s=150 if tier == "quick" else 1500)
    bounds = {"dag_nodes_max": 4 if tier == "quick" else 5, "digraph_inner_nodes_max": 3, "k_max": 4,
              "flow_values": "superpositions of <=3 routes with weights in {1,2,3,5}", "z3_timeout_s": 60}
    return core.finish(PID, tier, seed, LEVEL, acc, t0, RULE, ASSUMPTIONS, bounds, replay)
