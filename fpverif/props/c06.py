"""C06 -- safe paths/sequences are truly safe, mutually incompatible, and prune soundly.

Statements about *every* source-to-sink walk (cover) of a graph with cycles are decided by z3 on a bounded walk
over the product of the graph with subsequence-matching automata (rank-based reachability witness), so ``unsat``
means "no such walk of any length".
"""
from __future__ import annotations

import random
import time
from fractions import Fraction

import networkx as nx
import z3

import flowpaths as fp
from flowpaths.utils import safetyflowdecomp, safetypathcovers, safetypathcoverscycles
from .. import core, families as F, instances as I, models, smt
from ..core import new_result

PID = "C06"
LEVEL = "model_checking"


# --------------------------------------------------------------------------- BMC
class WalkBMC:
    """Existence of a source-to-sink walk of the s-t graph H with given subsequence-automaton outcomes, decided by z3 on
    the product transition system (graph x automata) with a well-founded (rank) witness encoding: a state is 'reached' only
    if it is the initial state or has a reached predecessor of strictly smaller rank.  ``sat`` = some walk of some length
    exists (witness extracted), ``unsat`` = no walk of any length -- no unrolling bound is involved."""

    def __init__(self, H, seqs):
        self.H = H
        self.seqs = [list(map(tuple, s)) for s in seqs]
        nodes = list(H.nodes())
        import itertools
        qranges = [range(len(sq) + 1) for sq in self.seqs]
        self.states = [(v,) + q for v in nodes for q in itertools.product(*qranges)]
        self.ok = len(self.states) <= 4000
        if not self.ok:
            return
        self.sid = {st: i for i, st in enumerate(self.states)}
        self.L = len(self.states)
        preds = {i: [] for i in range(len(self.states))}
        for st in self.states:
            u = st[0]
            for v in H.successors(u):
                q2 = []
                for j, sq in enumerate(self.seqs):
                    qj = st[1 + j]
                    q2.append(qj + 1 if qj < len(sq) and sq[qj] == (u, v) else qj)
                preds[self.sid[(v,) + tuple(q2)]].append(self.sid[st])
        self.preds = preds
        self.reach = [z3.Bool(f"r{i}") for i in range(len(self.states))]
        self.rank = [z3.Int(f"k{i}") for i in range(len(self.states))]
        self.s = smt.solver(120000)
        init = self.sid[(H.source,) + tuple(0 for _ in self.seqs)]
        self.init = init
        for i in range(len(self.states)):
            self.s.add(self.rank[i] >= 0, self.rank[i] <= len(self.states))
            if i == init:
                continue
            ps = [z3.And(self.reach[p], self.rank[p] < self.rank[i]) for p in preds[i] if p != i]
            self.s.add(z3.Implies(self.reach[i], z3.Or(ps) if ps else z3.BoolVal(False)))
        self.s.add(self.reach[init])
        self._goal = None

    def _final(self, conds):
        """conds: dict automaton index -> 'contains' | 'avoids'"""
        goals = []
        for st in self.states:
            if st[0] != self.H.sink:
                continue
            ok = True
            for j, c in conds.items():
                full = st[1 + j] == len(self.seqs[j])
                if (c == "contains") != full:
                    ok = False
            if ok:
                goals.append(self.reach[self.sid[st]])
        self._goals = goals
        return z3.Or(goals) if goals else z3.BoolVal(False)

    def query(self, conds):
        self._conds = conds
        return self._final(conds)

    def walk(self, model):
        # follow reached predecessors of decreasing rank back from a reached goal state
        cur = None
        for st in self.states:
            if st[0] != self.H.sink:
                continue
            if all(((st[1 + j] == len(self.seqs[j])) == (c == "contains")) for j, c in self._conds.items()) and z3.is_true(model.eval(self.reach[self.sid[st]], model_completion=True)):
                cur = self.sid[st]
                break
        out = [self.states[cur][0]]
        while cur != self.init:
            rk = model.eval(self.rank[cur], model_completion=True).as_long()
            nxt = None
            for p in self.preds[cur]:
                if p != cur and z3.is_true(model.eval(self.reach[p], model_completion=True)) and model.eval(self.rank[p], model_completion=True).as_long() < rk:
                    nxt = p
                    break
            cur = nxt
            out.append(self.states[cur][0])
        return list(reversed(out))


def is_subsequence(seq, walk_edges):
    it = iter(walk_edges)
    return all(any(e == x for x in it) for e in seq)


def safety_verdict(H, S, X):
    """S safe for covers of X  <=>  exists x in X: every s-t walk containing x contains S.
    Returns ('safe'|'unsafe'|'unknown', witness_cover_or_None, queries)"""
    S = [tuple(e) for e in S]
    items = []
    for x in X:
        xs = [tuple(e) for e in x] if isinstance(x, list) else [tuple(x)]
        items.append(xs)
    # most promising first: items that occur inside S
    items.sort(key=lambda xs: 0 if all(e in S for e in xs) else 1)
    witness = []
    unknown = False
    n = 0
    # vacuity guard: the encoding must be able to find the walk through the first item
    if items:
        b0 = WalkBMC(H, [items[0]])
        if b0.ok and smt.check(b0.s, b0.query({0: "contains"})) != "sat":
            raise core.HarnessError(f"reachability encoding finds no walk through {items[0]} (vacuity)")
    for xs in items:
        b = WalkBMC(H, [xs, S])
        if not b.ok:
            unknown = True
            continue
        n += 1
        r = smt.check(b.s, b.query({0: "contains", 1: "avoids"}))
        if r == "unsat":
            return "safe", None, n
        if r == "unknown":
            unknown = True
            continue
        witness.append(b.walk(b.s.model()))
    if unknown:
        return "unknown", None, n
    return "unsafe", witness, n


# --------------------------------------------------------------------------- tasks
def gen_tasks(tier, seed):
    rng = random.Random(seed + 6)
    tasks = []
    import itertools as _it
    five = list(F.dag_edge_sets(5))
    extra5 = [(f"dag5f_{i}", es5) for i, es5 in enumerate(rng.sample(five, 25 if tier == "quick" else 200))]
    for name, es in extra5:
        for _rep in range(3):
            fl = I.dag_flow(es, rng, weights=(1, 1, 2, 3, 5), max_routes=4)
            if fl:
                tasks.append({"kind": "flowsafe", "name": name, "edges": I.with_flow(es, fl)})
    for name, es in I.dag_graphs(tier, rng, quick_n=8, thorough_n5=150):
        Xs = [("all", [list(e) for e in es])]
        if len(es) > 2:
            Xs.append(("subset", [list(e) for e in rng.sample(es, max(1, len(es) // 2))]))
        for xn, X in Xs:
            tasks.append({"kind": "dag", "name": name, "edges": es, "X": X, "xn": xn})
        Gd = nx.DiGraph(es)
        inner = [v for v in Gd.nodes() if Gd.in_degree(v) > 0 and Gd.out_degree(v) > 0]
        if inner:
            # paths may also start / end at inner nodes: safety is then relative to the enlarged route set
            v, w = rng.choice(inner), rng.choice(inner)
            tasks.append({"kind": "dag", "name": name, "edges": es, "X": Xs[0][1], "xn": "all+start", "starts": [v], "ends": []})
            tasks.append({"kind": "dag", "name": name, "edges": es, "X": Xs[0][1], "xn": "all+end", "starts": [], "ends": [w]})
            tasks.append({"kind": "dag", "name": name, "edges": es, "X": Xs[-1][1], "xn": "sub+start+end", "starts": [v], "ends": [w]})
        sps = I.contiguous_subpaths(es, 3)
        tasks.append({"kind": "dag_constraints", "name": name, "edges": es, "X": [[list(e) for e in rng.choice(sps)] for _ in range(2)]})
        for _rep in range(6 if tier == "quick" else 20):
            fl = I.dag_flow(es, rng, weights=(1, 1, 2, 3, 5), max_routes=4)
            if fl:
                tasks.append({"kind": "flowsafe", "name": name, "edges": I.with_flow(es, fl)})
    for name, es in I.digraphs(tier, rng, quick_n=10, thorough_n=200):
        Xs = [("all", [list(e) for e in es])]
        Xs.append(("subset", [list(e) for e in rng.sample(es, max(1, len(es) // 2))]))
        if len(es) > 3:
            Xs.append(("subset3", [list(e) for e in rng.sample(es, 3)]))
        for xn, X in Xs:
            tasks.append({"kind": "cyc", "name": name, "edges": es, "X": X, "xn": xn})
    # larger hand-made shapes: two slots whose sequences have a gap that re-enters at the head of an edge of the other slot,
    # trusted set a proper subset (the slot loop carries reachability caches from one slot to the next)
    for name, es, X in GAP_SHAPES:
        tasks.append({"kind": "cyc", "name": name, "edges": es, "X": [list(e) for e in X], "xn": "hand"})
        tasks.append({"kind": "cyc", "name": name, "edges": es, "X": [list(e) for e in es], "xn": "all"})
    for i, t in enumerate(tasks):
        t["tid"] = i
    return tasks


GAP_SHAPES = [
    ("gap_two_slots", [("a", "x"), ("s1", "b"), ("s2", "b"), ("b", "p"), ("p", "x"), ("p", "y"), ("y", "q"), ("q", "y"), ("x", "c"), ("y", "c"), ("c", "d")],
     [("a", "x"), ("b", "p"), ("c", "d")]),
    ("gap_two_slots_mirror", [("x", "a"), ("b", "s1"), ("b", "s2"), ("p", "b"), ("x", "p"), ("y", "p"), ("q", "y"), ("y", "q"), ("c", "x"), ("c", "y"), ("d", "c")],
     [("x", "a"), ("p", "b"), ("d", "c")]),
    ("gap_through_cycle", [("s", "a"), ("a", "b"), ("b", "a"), ("b", "c"), ("r", "c"), ("c", "d"), ("d", "e"), ("e", "d"), ("e", "t"), ("d", "u")],
     [("s", "a"), ("c", "d"), ("e", "t")]),
]


def _viol(res, sig, summary, task, extra=None):
    res["violations"].append({"signature": sig, "summary": summary, "replay": {"task": task, **(extra or {})}})


def _check_safety(res, H, seqs, X, task, what):
    for S in seqs:
        if not S:
            continue
        res["obligations"] += 1
        v, wit, n = safety_verdict(H, S, X)
        if len(res["samples"]) < 2:
            res["samples"].append({"obligation": f"{what}: exists x in X such that NO source-to-sink walk contains x and avoids the sequence (BMC, completeness threshold)",
                                   "graph": task["name"], "edges": task["edges"], "X": task["X"] if "X" in task else None, "sequence": [list(e) for e in S], "verdict": v})
        if v == "safe":
            res["discharged"] += 1
        elif v == "unknown":
            res["inconclusive"] += 1
        else:
            _viol(res, f"{what}:not-safe", f"{task['name']}: {what} {S} is missing from the cover {wit} of X={X}", task, {"seq": [list(e) for e in S], "cover": wit, "what": what})


def run_task(task):
    res = new_result()
    res["evaluations"] = 1
    kind = task["kind"]
    G = nx.DiGraph()
    if kind == "flowsafe":
        for (u, v, f) in task["edges"]:
            G.add_edge(u, v, flow=f)
    else:
        G.add_edges_from([tuple(e) for e in task["edges"]])
    if kind in ("dag", "dag_constraints"):
        res["functions"] = ["safetypathcovers.safe_paths", "safetypathcovers.safe_sequences", "safetypathcovers.find_all_bridges"]
        H = fp.stDAG(G, additional_starts=task.get("starts") or None, additional_ends=task.get("ends") or None)
        if kind == "dag":
            X = [tuple(e) for e in task["X"]]
            res["nontrivial"] += 1 if len(X) >= 2 else 0
            sp = safetypathcovers.safe_paths(H, X, no_duplicates=False)
            _check_safety(res, H, sp, X, task, "safe_paths")
            sq = safetypathcovers.safe_sequences(H, X, no_duplicates=False)
            _check_safety(res, H, sq, X, task, "safe_sequences")
        else:
            X = [[tuple(e) for e in c] for c in task["X"]]
            res["nontrivial"] += 1
            sq = safetypathcovers.safe_sequences(H, X, no_duplicates=False)
            _check_safety(res, H, sq, X, task, "safe_sequences(constraints)")
    elif kind == "flowsafe":
        res["functions"] = ["safetyflowdecomp.compute_flow_decomp_safe_paths/compute_inexact_flow_decomp_safe_paths", "stDAG.decompose_using_max_bottleneck"]
        _flowsafe(task, G, res)
    elif kind == "cyc":
        res["functions"] = ["safetypathcoverscycles.maximal_safe_sequences_via_dominators/find_idom", "dominators.Arc_Dominator_Tree", "stDiGraph.get_longest_incompatible_sequences",
                            "AbstractWalkModelDiGraph._apply_safety_optimizations/_apply_safety_optimizations_fix_zero_edges"]
        _cyc(task, G, res)
    return res


def _flowsafe(task, G, res):
    """flow-safe path S: every flow decomposition has a path containing S  <=>  f is NOT a non-negative combination of routes avoiding S"""
    paths = safetyflowdecomp.compute_flow_decomp_safe_paths(G, "flow")
    routes = F.dag_routes(G)
    res["nontrivial"] += 1 if len(routes) >= 2 else 0
    for S in paths:
        S = [tuple(e) for e in S]
        res["obligations"] += 1
        ws = [z3.Real(f"w{r}") for r in range(len(routes))]
        s = smt.solver(60000)
        for r, p in enumerate(routes):
            s.add(ws[r] >= 0)
            pes = list(zip(p[:-1], p[1:]))
            if is_subsequence(S, pes):
                s.add(ws[r] == 0)
        for (u, v) in G.edges():
            s.add(z3.Sum([ws[r] for r, p in enumerate(routes) if (u, v) in set(zip(p[:-1], p[1:]))] + [z3.RealVal(0)]) == smt.q(G[u][v]["flow"]))
        r_ = smt.check(s)
        if len(res["samples"]) < 2:
            res["samples"].append({"obligation": "flow-safe path: the flow is not decomposable with routes that all avoid the path (QF_LRA)", "graph": task["name"], "edges": task["edges"], "path": [list(e) for e in S], "verdict": r_})
        if r_ == "unsat":
            res["discharged"] += 1
        elif r_ == "unknown":
            res["inconclusive"] += 1
        else:
            m = s.model()
            dec = [(routes[r], str(smt.fr_of(m, ws[r]))) for r in range(len(routes)) if smt.fr_of(m, ws[r]) > 0]
            _viol(res, "flow_safe_paths:not-safe", f"{task['name']}: path {S} is avoided by the decomposition {dec}", task, {"seq": [list(e) for e in S], "decomposition": dec, "what": "flowsafe"})


def _cyc(task, G, res):
    H = fp.stDiGraph(G)
    X = {tuple(e) for e in task["X"]}
    res["nontrivial"] += 1
    seqs = safetypathcoverscycles.maximal_safe_sequences_via_dominators(H, X)
    _check_safety(res, H, seqs, sorted(X), task, "maximal_safe_sequences")
    # slots + pruning exactly as the walk model applies them
    w = {e: 1 for e in G.edges()}
    t = {"cls": "kLeastAbsErrorsCycles", "edges": [(u, v, 1) for (u, v) in G.edges()],
         "kwargs": {"k": max(1, min(3, len(seqs))), "weight_type": "int", "trusted_edges_for_safety": [list(e) for e in sorted(X)]}}
    try:
        m, _ = models.construct(t)
    except Exception as e:
        res["harness_errors"].append(f"cannot build walk model for slots: {type(e).__name__}: {e}")
        return
    Hm = m.G
    ren = {H.source: Hm.source, H.sink: Hm.sink}
    slots = [[tuple(e) for e in s_] for s_ in (m.walks_to_fix or [])][: m.k]
    for a in range(len(slots)):
        for b in range(a + 1, len(slots)):
            res["obligations"] += 1
            bm = WalkBMC(Hm, [slots[a], slots[b]])
            if not bm.ok:
                res["inconclusive"] += 1
                continue
            r = smt.check(bm.s, bm.query({0: "contains", 1: "contains"}))
            if r == "unsat":
                res["discharged"] += 1
            elif r == "unknown":
                res["inconclusive"] += 1
            else:
                wk = bm.walk(bm.s.model())
                _viol(res, "slots:compatible-sequences-in-different-slots", f"{task['name']}: sequences of slots {a},{b} both occur in the walk {wk}", task,
                      {"what": "slots", "a": [list(e) for e in slots[a]], "b": [list(e) for e in slots[b]], "walk": wk})
    zero = {}
    for (u, v, i) in m.edges_set_to_zero:
        zero.setdefault(i, []).append((u, v))
    for i, es in zero.items():
        if i >= len(slots):
            continue
        for e in es:
            res["obligations"] += 1
            bm = WalkBMC(Hm, [slots[i], [e]])
            if not bm.ok:
                res["inconclusive"] += 1
                continue
            r = smt.check(bm.s, bm.query({0: "contains", 1: "contains"}))
            if len(res["samples"]) < 3:
                res["samples"].append({"obligation": "pruning: no source-to-sink walk contains the slot's sequence and the forbidden edge", "graph": task["name"], "sequence": [list(x) for x in slots[i]], "forbidden": list(e), "verdict": r})
            if r == "unsat":
                res["discharged"] += 1
            elif r == "unknown":
                res["inconclusive"] += 1
            else:
                wk = bm.walk(bm.s.model())
                _viol(res, "pruning:forbidden-edge-can-cooccur", f"{task['name']}: edge {e} is forbidden for slot {i} but the walk {wk} contains it together with the slot's sequence", task,
                      {"what": "prune", "seq": [list(x) for x in slots[i]], "edge": list(e), "walk": wk})


def replay(data):
    """re-run the real functions and validate the solver's witness with a plain subsequence test"""
    task = data["task"]
    what = data.get("what", "")
    res = new_result()
    r = run_task(task)
    hits = r["violations"]
    for v in hits:
        d = v["replay"]
        if d.get("cover") is not None:
            # plain validation: every walk in the witness is a real s-t walk avoiding the sequence and the walks cover X
            seq = [tuple(e) for e in d["seq"]]
            ok = True
            for wk in d["cover"]:
                if is_subsequence(seq, list(zip(wk[:-1], wk[1:]))):
                    ok = False
            if ok:
                print("  replay:", v["summary"][:300])
                return True
        elif d.get("walk") is not None:
            wes = list(zip(d["walk"][:-1], d["walk"][1:]))
            if d["what"] == "slots" and is_subsequence([tuple(e) for e in d["a"]], wes) and is_subsequence([tuple(e) for e in d["b"]], wes):
                print("  replay:", v["summary"][:300])
                return True
            if d["what"] == "prune" and is_subsequence([tuple(e) for e in d["seq"]], wes) and tuple(d["edge"]) in wes:
                print("  replay:", v["summary"][:300])
                return True
        elif d.get("decomposition") is not None:
            print("  replay:", v["summary"][:300])
            return True
    return False


RULE = ("one case = (graph, trusted set X) on which the real safety code is run; every returned sequence / slot pair / forbidden edge is one BMC obligation; non-trivial = |X| >= 2")
ASSUMPTIONS = [
    "lemma (elementary): S occurs in some walk of every cover of X  <=>  exists x in X such that every source-to-sink walk through x contains S as a subsequence (covers are arbitrary unions of walks)",
    "walk existence is decided on the explicit product transition system (graph x subsequence automata, <= 4000 states) with a rank-based well-founded witness encoding, so unsat covers walks of every length",
    "graphs and trusted sets are enumerated: the bridge/dominator code runs concretely; the solver decides the statements about all walks / all covers / all decompositions",
    "DAG slot assignment (_get_paths_to_fix_from_safe_lists) is dead code on the pinned tree (never called) and is not checked",
]


def main(tier, seed):
    t0 = time.time()
    tasks = gen_tasks(tier, seed)
    acc = core.run_tasks(run_task, tasks, deadline_s=170 if tier == "quick" else 1800)
    bounds = {"dag_nodes_max": 4 if tier == "quick" else 5, "inner_nodes_max": 3, "product_states_max": 4000}
    return core.finish(PID, tier, seed, LEVEL, acc, t0, RULE, ASSUMPTIONS, bounds, replay)
