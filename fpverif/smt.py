"""LP -> SMT (DESIGN 2.2) and small z3 helpers.

Every coefficient is translated as the exact rational value of the double that
HiGHS stores (``Fraction(float)``), never through a decimal rendering.
"""
from __future__ import annotations

import time
from fractions import Fraction

import z3

from .hx import LP

STATS = {"queries": 0, "solver_s": 0.0, "unknown": 0}

# z3.Sum([t]) is printed as the unary application (+ t), which cvc5 rejects when obligations are dumped for the
# external cross-check: make sums of fewer than two terms plain terms.
_z3_sum = z3.Sum


def _sum(*args):
    xs = list(args[0]) if len(args) == 1 and isinstance(args[0], (list, tuple)) else None
    if xs is None:
        return _z3_sum(*args)
    if len(xs) == 0:
        return z3.IntVal(0)
    if len(xs) == 1:
        return xs[0]
    return _z3_sum(xs)


z3.Sum = _sum


def q(x):
    fr = Fraction(x)
    if fr.denominator == 1:
        return z3.IntVal(fr.numerator)
    return z3.RatVal(fr.numerator, fr.denominator)


def fr_of(model, term) -> Fraction:
    v = model.eval(term, model_completion=True)
    if z3.is_int_value(v):
        return Fraction(v.as_long())
    if z3.is_rational_value(v):
        return Fraction(v.numerator_as_long(), v.denominator_as_long())
    if z3.is_algebraic_value(v):
        a = v.approx(30)
        return Fraction(a.numerator_as_long(), a.denominator_as_long())
    raise ValueError(f"cannot read value of {term}: {v}")


class Enc:
    """z3 encoding of one LP snapshot."""

    def __init__(self, lp: LP, tag: str = "", eps=0, relax_int: bool = False):
        self.lp = lp
        self.xs = []
        self.cons = []
        e = Fraction(eps)
        for j in range(lp.ncol):
            if lp.is_int[j] and not relax_int:
                v = z3.Int(f"c{j}{tag}")
            else:
                v = z3.Real(f"c{j}{tag}")
            self.xs.append(v)
            if lp.lb[j] is not None:
                self.cons.append(v >= q(Fraction(lp.lb[j]) - (0 if lp.is_int[j] else e)))
            if lp.ub[j] is not None:
                self.cons.append(v <= q(Fraction(lp.ub[j]) + (0 if lp.is_int[j] else e)))
        for i in range(lp.nrow):
            terms = [q(c) * self.xs[j] for j, c in lp.rows[i] if c != 0]
            ex = z3.Sum(terms) if terms else z3.IntVal(0)
            if lp.row_lb[i] is not None and lp.row_ub[i] is not None and lp.row_lb[i] == lp.row_ub[i] and e == 0:
                self.cons.append(ex == q(lp.row_lb[i]))
            else:
                if lp.row_lb[i] is not None:
                    self.cons.append(ex >= q(Fraction(lp.row_lb[i]) - e))
                if lp.row_ub[i] is not None:
                    self.cons.append(ex <= q(Fraction(lp.row_ub[i]) + e))
        terms = [q(c) * x for c, x in zip(lp.cost, self.xs) if c != 0]
        self.obj = (z3.Sum(terms) if terms else z3.IntVal(0)) + q(lp.offset)
        # objective in "minimise" orientation
        self.min_obj = -self.obj if lp.maximize else self.obj

    def solver(self, timeout_ms=60000):
        s = z3.Solver()
        s.set("timeout", timeout_ms)
        s.add(self.cons)
        return s

    def values(self, model):
        return [fr_of(model, x) for x in self.xs]


XCHECK = {"every": int(__import__("os").environ.get("FPVERIF_XCHECK_EVERY", "0") or 0), "n": 0, "done": 0, "agree": 0, "disagree": [], "skipped": 0}


def _external(smt2: str, tool: str, timeout_s=30):
    """re-decide a dumped obligation with an independent solver binary; returns sat|unsat|unknown"""
    import os
    import subprocess
    import tempfile
    fd, path = tempfile.mkstemp(suffix=".smt2")
    try:
        with os.fdopen(fd, "w") as f:
            f.write(smt2)
        if tool == "cvc5":
            cmd = ["cvc5", "--force-logic=ALL", f"--tlimit={timeout_s * 1000}", path]
        else:
            cmd = ["/usr/bin/z3", f"-T:{timeout_s}", path]
        try:
            p = subprocess.run(cmd, capture_output=True, text=True, timeout=timeout_s + 10)
        except subprocess.TimeoutExpired:
            return "unknown"
        out = (p.stdout + p.stderr)
        if "(error" in out:
            return "unknown"          # an error line makes the answer inconclusive, never a verdict
        for line in out.splitlines():
            line = line.strip()
            if line in ("sat", "unsat", "unknown"):
                return line
        return "unknown"
    finally:
        os.unlink(path)


def check(s: z3.Solver, *assumptions) -> str:
    t = time.time()
    r = s.check(*assumptions)
    STATS["queries"] += 1
    STATS["solver_s"] += time.time() - t
    r = str(r)
    if r == "unknown":
        STATS["unknown"] += 1
    if XCHECK["every"] and r in ("sat", "unsat"):
        XCHECK["n"] += 1
        if XCHECK["n"] % XCHECK["every"] == 0:
            s2 = z3.Solver()
            s2.add(s.assertions())
            s2.add(*assumptions)
            txt = s2.to_smt2()
            if len(txt) < 400000:
                for tool in ("cvc5", "z3-4.8"):
                    v = _external(txt, tool)
                    XCHECK["done"] += 1
                    if v == "unknown":
                        XCHECK["skipped"] += 1
                    elif v == r:
                        XCHECK["agree"] += 1
                    else:
                        XCHECK["disagree"].append(f"{tool}: {v} vs z3-5.1: {r}")
    return r


def solver(timeout_ms=60000):
    s = z3.Solver()
    s.set("timeout", timeout_ms)
    return s


def feasible(lp: LP, eps=0, timeout_ms=60000):
    e = Enc(lp, eps=eps)
    s = e.solver(timeout_ms)
    r = check(s)
    return r, (e.values(s.model()) if r == "sat" else None)


def certify_optimum(cons, min_obj, cand: Fraction, delta=0, timeout_ms=60000):
    """Two decision queries: (min_obj <= cand+delta) must be sat, (min_obj < cand-delta) unsat.
    Returns (verdict, detail) with verdict in {'equal','lower_exists','unreachable','unknown'}."""
    s = solver(timeout_ms)
    s.add(cons)
    r1 = check(s, min_obj <= q(Fraction(cand) + Fraction(delta)))
    if r1 == "unknown":
        return "unknown", None
    if r1 == "unsat":
        return "unreachable", None
    r2 = check(s, min_obj < q(Fraction(cand) - Fraction(delta)))
    if r2 == "unknown":
        return "unknown", None
    if r2 == "sat":
        return "lower_exists", s.model()
    return "equal", None


def minimise(cons, min_obj, timeout_ms=60000):
    """Optimum by z3.Optimize, certified by two decision queries.  Returns
    ('infeasible'|'unknown'|'ok', Fraction|None)."""
    s = solver(timeout_ms)
    s.add(cons)
    r = check(s)
    if r == "unsat":
        return "infeasible", None
    if r == "unknown":
        return "unknown", None
    o = z3.Optimize()
    o.set("timeout", timeout_ms)
    o.add(cons)
    h = o.minimize(min_obj)
    t = time.time()
    r = str(o.check())
    STATS["queries"] += 1
    STATS["solver_s"] += time.time() - t
    if r != "sat":
        STATS["unknown"] += 1
        return "unknown", None
    val = fr_of(o.model(), min_obj)
    v, _ = certify_optimum(cons, min_obj, val, 0, timeout_ms)
    if v == "equal":
        return "ok", val
    return "unknown", None


def to_smt2(cons, extra=()):
    s = z3.Solver()
    s.add(cons)
    s.add(*extra)
    return s.to_smt2()
