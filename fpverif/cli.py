"""./check <ID> [--tier quick|thorough] [--replay FILE]"""
import argparse
import importlib
import json
import os
import sys
import warnings

warnings.filterwarnings("ignore")
import logging

logging.disable(logging.CRITICAL)


def main():
    ap = argparse.ArgumentParser()
    ap.add_argument("pid")
    ap.add_argument("--tier", default=os.environ.get("VERIF_TIER", "quick"))
    ap.add_argument("--replay", default=None)
    a = ap.parse_args()
    seed = int(os.environ.get("VERIF_SEED", "0") or 0)
    # every n-th decided z3 obligation is dumped as SMT-LIB2 and re-decided by cvc5 1.0 and z3 4.8 (disagreement = harness error)
    os.environ.setdefault("FPVERIF_XCHECK_EVERY", "25" if a.tier.startswith("t") else "100")
    mod = importlib.import_module(f"fpverif.props.{a.pid.lower()}")
    if a.replay:
        with open(a.replay) as f:
            v = json.load(f)
        ok = mod.replay(v["replay"])
        if ok:
            print(f"VIOLATION property={a.pid} replay={a.replay}")
            sys.exit(1)
        print("replay: violation did not reproduce on the current tree")
        sys.exit(0)
    tier = "thorough" if a.tier.startswith("t") else "quick"
    sys.exit(mod.main(tier, seed))


if __name__ == "__main__":
    try:
        main()
    except SystemExit:
        raise
    except BaseException as e:       # a crash of the machinery is a harness error (exit 2), never a verdict
        import traceback
        traceback.print_exc()
        print(f"HARNESS-ERROR: the check itself failed: {type(e).__name__}: {e}")
        sys.exit(2)
